//! lruverif: one binary, many sub-commands; each prints one `RESULT {json}` line that run/check.py merges.

use lruverif::json::J;
use lruverif::*;

#[global_allocator]
static GLOBAL: valloc::VAlloc = valloc::VAlloc;

fn main() {
    let args = Args::parse();
    quiet_panics();
    match args.cmd.as_str() {
        "hist" => {
            let mut out = engine::RunOut::new();
            let seed = args.u64("seed", 0);
            let profile = args.str("profile", "mixed");
            engine::run_profile(&profile, seed, args.u64("events", 10000), &mut out, args.u64("bare", 0) == 1);
            emit(&args, stats_json(&out).set("cmd", J::s("hist")).set("profile", J::s(&profile)).set("seed", J::u(seed)));
        }
        "enum_iter" | "enum_retain" => {
            let mut out = engine::RunOut::new();
            let p = enumr::EnumParams { max_n: args.u64("max-n", 4) as usize, extra_calls: args.u64("extra", 3) as usize, forget: args.u64("forget", 0) == 1,
                shard: args.u64("shard", 0), nshards: args.u64("nshards", 1).max(1), seed: args.u64("seed", 0), bare: args.u64("bare", 0) == 1, markers: args.u64("markers", 0) == 1 };
            let cases = if args.cmd == "enum_iter" {
                let a = enumr::enum_iter(&p, &mut out);
                a + enumr::random_iter(&p, args.u64("random", 0), args.u64("random-len", 60) as usize, &mut out)
            } else {
                let a = enumr::enum_retain(&p, &mut out);
                enumr::random_retain(&p, args.u64("random", 0), args.u64("random-len", 60) as usize, &mut out);
                a + args.u64("random", 0)
            };
            emit(&args, stats_json(&out).set("cmd", J::s(&args.cmd)).set("cases", J::u(cases)));
        }
        "inject" => {
            let mut out = engine::RunOut::new();
            let p = inject::InjectParams { seed: args.u64("seed", 0), budget_cases: args.u64("cases", 2000), markers: args.u64("markers", 0) == 1,
                further_min: args.u64("further-min", 6) as usize, further_max: args.u64("further-max", 20) as usize };
            inject::run_inject(&p, &mut out);
            emit(&args, stats_json(&out).set("cmd", J::s("inject")));
        }
        "inject_big" => {
            let mut out = engine::RunOut::new();
            let n = args.u64("n", 150000) as usize;
            inject::run_inject_big(args.u64("seed", 0), n, &mut out);
            inject::run_inject_big(args.u64("seed", 0) ^ 1, n / 7 + 1000, &mut out);
            emit(&args, stats_json(&out).set("cmd", J::s("inject_big")));
        }
        "replay_inject" => {
            // file: cfg line, `inject <class> <n> <at>` line, then one op per line
            let text = std::fs::read_to_string(args.str("file", "")).expect("read replay file");
            let mut lines = text.lines().filter(|l| !l.trim().is_empty());
            let cfg = gen::HistCfg::from_text(lines.next().expect("cfg line")).expect("cfg");
            let inj: Vec<String> = lines.next().expect("inject line").split_whitespace().map(|s| s.to_string()).collect();
            let class = types::CLASS_NAMES.iter().position(|c| *c == inj[1]).expect("class");
            let n: u64 = inj[2].parse().expect("n"); let at: usize = inj[3].parse().expect("at");
            let ops: Vec<ops::Op> = lines.map(|l| ops::Op::from_text(l).expect("op")).collect();
            let mut out = engine::RunOut::new();
            inject::replay_inject(&cfg, &ops, at, class, n, &mut out);
            emit(&args, stats_json(&out).set("cmd", J::s("replay_inject")));
        }
        "autotraits" => {
            let rows = sharedref::trait_table();
            let mut out = engine::RunOut::new();
            let mut fails = Vec::new();
            let ok = sharedref::probe_selftest();
            if !ok { fails.push(J::obj().set("property", J::s("C18")).set("signature", J::s("probe-selftest")).set("message", J::s("the trait probe misreports known auto traits")).set("kind", J::s("autotraits"))); }
            let (it_rows, it_bad) = sharedref::iter_trait_findings();
            for _ in 0..it_rows { out.stats.count("c18_iterator_autotrait_rows"); }
            for (i, m) in it_bad.iter().enumerate() { out.stats.eval("C18", 9000 + i as u64); fails.push(J::obj().set("property", J::s("C18")).set("signature", J::s("iterator-autotrait-unsound")).set("kind", J::s("autotraits")).set("message", J::s(m))); }
            for (i, r) in rows.iter().enumerate() {
                out.stats.eval("C18", (i as u64) * 2); out.stats.eval("C18", (i as u64) * 2 + 1);
                if r.send != r.want_send { fails.push(J::obj().set("property", J::s("C18")).set("signature", J::s("send")).set("kind", J::s("autotraits")).set("message", J::s(&format!("LruCache<K: {}, V: {}, S: {}> is {}Send, expected {}Send", r.k, r.v, r.s, if r.send { "" } else { "not " }, if r.want_send { "" } else { "not " })))); }
                if r.sync != r.want_sync { fails.push(J::obj().set("property", J::s("C18")).set("signature", J::s("sync")).set("kind", J::s("autotraits")).set("message", J::s(&format!("LruCache<K: {}, V: {}, S: {}> is {}Sync, expected {}Sync", r.k, r.v, r.s, if r.sync { "" } else { "not " }, if r.want_sync { "" } else { "not " })))); }
            }
            out.stats.events = rows.len() as u64 * 2;
            out.stats.add("c18_table_rows", rows.len() as u64);
            out.stats.add("c18_rows_expected_send", rows.iter().filter(|r| r.want_send).count() as u64);
            out.stats.add("c18_rows_expected_not_send", rows.iter().filter(|r| !r.want_send).count() as u64);
            out.stats.add("c18_rows_expected_sync", rows.iter().filter(|r| r.want_sync).count() as u64);
            for r in rows.iter().take(5) { out.stats.sample("C18", format!("LruCache<K: {}, V: {}, S: {}>: Send={} Sync={}", r.k, r.v, r.s, r.send, r.sync)); }
            if !fails.is_empty() { out.viol_counts.insert("C18", fails.len() as u64); }
            let mut j = stats_json(&out).set("cmd", J::s("autotraits"));
            if let J::Obj(o) = &mut j { o.retain(|(k, _)| k != "failures"); }
            j.put("failures", J::Arr(fails));
            emit(&args, j);
        }
        "sharedref" | "sharedref_threads" => {
            let threads = args.u64("threads", 4) as usize;
            #[cfg(all(not(miri), not(feature = "noarena")))]
            let sr = if args.cmd == "sharedref" { sharedref::run_arena(args.u64("seed", 0), args.u64("states", 50), threads) } else { sharedref::run_threads(args.u64("seed", 0), args.u64("states", 10), threads) };
            #[cfg(any(miri, feature = "noarena"))]
            let sr = sharedref::run_threads(args.u64("seed", 0), args.u64("states", 10), threads);
            let mut out = engine::RunOut::new();
            out.stats = sr.stats;
            for s in &sr.samples { out.stats.sample("C19", s.clone()); out.stats.sample("C18", s.clone()); }
            for v in &sr.viols { *out.viol_counts.entry(v.prop).or_insert(0) += 1; }
            let mut j = stats_json(&out).set("cmd", J::s(&args.cmd));
            if let J::Obj(o) = &mut j { o.retain(|(k, _)| k != "failures"); }
            j.put("failures", J::Arr(sr.viols.iter().map(|v| J::obj().set("property", J::s(v.prop)).set("signature", J::s(&v.sig)).set("message", J::s(&v.msg)).set("kind", J::s("sharedref"))).collect()));
            emit(&args, j);
        }
        "typevar" => {
            let mut out = engine::RunOut::new();
            if args.u64("layouts", 0) > 0 { typevar::run_layouts(args.u64("seed", 0), args.u64("layouts", 0), &mut out); } else { typevar::run_typevar(args.u64("seed", 0), args.u64("events", 100_000), &mut out); }
            emit(&args, stats_json(&out).set("cmd", J::s("typevar")));
        }
        "bigcap" => {
            let mut out = engine::RunOut::new();
            scale::run_bigcap(args.u64("seed", 0), args.u64("max-n", 100000) as usize, &mut out);
            if args.u64("shard", 0) == 0 { scale::run_hugecap(&mut out); }
            emit(&args, stats_json(&out).set("cmd", J::s("bigcap")));
        }
        "churn" | "hashscale" | "interleave" | "realheap" | "aliaskeys" | "modelrun" | "clonefrom" => {
            let mut out = engine::RunOut::new();
            let seed = args.u64("seed", 0);
            match args.cmd.as_str() {
                "churn" => scale::run_churn(seed, args.u64("ops", 1_000_000), &mut out),
                "hashscale" => { scale::run_hashscale(seed, args.u64("rounds", 2000), &mut out); if args.u64("shard", 0) == 0 { scale::run_hashscale_giant(args.u64("giant", if args.u64("rounds", 2000) >= 50_000 { 9_000_000 } else { 5_000_000 }) as usize, &mut out); } }
                "interleave" => scale::run_interleave(seed, args.u64("events", 100_000), &mut out),
                "clonefrom" => scale::run_clonefrom(seed, args.u64("events", 100_000), &mut out),
                "modelrun" => lruverif::modelrun::run_model(seed, args.u64("events", 100_000), &mut out),
                "aliaskeys" => { let ev = args.u64("events", 100_000); lruverif::aliaskeys::run_aliaskeys(seed, ev, &mut out); lruverif::aliaskeys::run_pathkeys(seed, ev / 4, &mut out); }
                _ => scale::run_realheap(seed, args.u64("events", 100_000), &mut out),
            }
            emit(&args, stats_json(&out).set("cmd", J::s(&args.cmd)));
        }
        "clone_refusal" => {
            let mut out = engine::RunOut::new();
            scale::run_clone_refusal(args.u64("case", 0), &mut out);
            emit(&args, stats_json(&out).set("cmd", J::s("clone_refusal")));
        }
        "noop" => { println!("ok"); }
        "selfcheck" => {
            // used by the driver to build (and smoke-test) a mode
            let mut out = engine::RunOut::new();
            engine::run_profile("mixed", 1, 50, &mut out, false);
            emit(&args, stats_json(&out).set("cmd", J::s("selfcheck")));
        }
        "replay" => {
            // file: first line cfg, then one op per line
            let path = args.str("file", "");
            let text = std::fs::read_to_string(&path).expect("read replay file");
            let mut lines = text.lines().filter(|l| !l.trim().is_empty());
            let cfg = gen::HistCfg::from_text(lines.next().expect("cfg line")).expect("cfg");
            let ops: Vec<ops::Op> = lines.map(|l| ops::Op::from_text(l).expect("op")).collect();
            let mut out = engine::RunOut::new();
            engine::run_history(&cfg, engine::Source::Fixed(&ops), &mut out, &engine::HistOpts::default());
            emit(&args, stats_json(&out).set("cmd", J::s("replay")));
        }
        _ => {
            eprintln!("usage: lruverif <hist|replay|...> [--key value]...");
            std::process::exit(2);
        }
    }
}
