//! A second, independent oracle: an executable sequential model of the whole cache (ordered vector of entries with
//! sizes, a limit) run in lock-step with the real cache for key/value types *other than the instrumented ones* - above all
//! types without drop glue (`Copy` handles whose `heap_size` depends on their state), which the drop ledger's types cannot
//! be. After every operation the return value and the complete observable state (order, values, sizes, scalars) are compared.

use crate::engine::{Failure, RunOut};
use crate::gen::HistCfg;
use crate::rng::{mix, Rng};
use crate::types::{next_hasher_seed, TH, TH_KINDS};
use lru_mem::{entry_size, HeapSize, InsertError, LruCache, MutateError, TryInsertError};
use std::hash::Hash;

/// What the run needs from a key / value type.
pub trait MKey: Eq + Hash + Clone + lru_mem::MemSize + std::fmt::Debug { fn mk(id: u32) -> Self; fn id(&self) -> u32; }
pub trait MVal: Clone + PartialEq + lru_mem::MemSize + std::fmt::Debug { fn mk(stamp: u64, heap: usize) -> Self; fn stamp(&self) -> u64; fn heap(&self) -> usize; fn set(&mut self, stamp: u64, heap: usize); }

impl MKey for u32 { fn mk(id: u32) -> u32 { id } fn id(&self) -> u32 { *self } }

/// `Copy` key with a declared heap size that is a function of the id (equal keys have equal sizes).
#[derive(Clone, Copy, Debug, PartialEq, Eq, Hash)]
pub struct PKey(pub u32);
impl HeapSize for PKey { fn heap_size(&self) -> usize { (self.0 as usize % 5) * 7 } }
impl MKey for PKey { fn mk(id: u32) -> PKey { PKey(id) } fn id(&self) -> u32 { self.0 } }

/// `Copy` value (no drop glue): a handle into memory accounted elsewhere, its size depends on its state.
#[derive(Clone, Copy, Debug, PartialEq, Eq)]
pub struct Span { pub stamp: u64, pub len: usize }
impl HeapSize for Span { fn heap_size(&self) -> usize { self.len } }
impl MVal for Span { fn mk(stamp: u64, heap: usize) -> Span { Span { stamp, len: heap } } fn stamp(&self) -> u64 { self.stamp } fn heap(&self) -> usize { self.len } fn set(&mut self, s: u64, h: usize) { self.stamp = s; self.len = h; } }

/// The same with drop glue (a `Drop` impl that does nothing observable).
#[derive(Clone, Debug, PartialEq, Eq)]
pub struct DSpan { pub stamp: u64, pub len: usize }
impl Drop for DSpan { fn drop(&mut self) { std::hint::black_box(&self.len); } }
impl HeapSize for DSpan { fn heap_size(&self) -> usize { self.len } }
impl MVal for DSpan { fn mk(stamp: u64, heap: usize) -> DSpan { DSpan { stamp, len: heap } } fn stamp(&self) -> u64 { self.stamp } fn heap(&self) -> usize { self.len } fn set(&mut self, s: u64, h: usize) { self.stamp = s; self.len = h; } }

/// `ManuallyDrop` around an owning value: no drop glue although it owns memory (leaked on purpose, tiny).
#[derive(Debug, PartialEq)]
pub struct MSpan { pub stamp: u64, pub len: usize, pub keep: std::mem::ManuallyDrop<Option<Box<u8>>> }
impl Clone for MSpan { fn clone(&self) -> MSpan { MSpan { stamp: self.stamp, len: self.len, keep: std::mem::ManuallyDrop::new(None) } } }
impl HeapSize for MSpan { fn heap_size(&self) -> usize { self.len } }
impl MVal for MSpan { fn mk(stamp: u64, heap: usize) -> MSpan { MSpan { stamp, len: heap, keep: std::mem::ManuallyDrop::new(None) } } fn stamp(&self) -> u64 { self.stamp } fn heap(&self) -> usize { self.len } fn set(&mut self, s: u64, h: usize) { self.stamp = s; self.len = h; } }

/// A value with a large inline part (buckets of more than 4 KiB).
#[derive(Clone, Debug, PartialEq)]
pub struct BigVal { pub stamp: u64, pub len: usize, pub pad: [u8; 4096] }
impl HeapSize for BigVal { fn heap_size(&self) -> usize { self.len } }
impl MVal for BigVal { fn mk(stamp: u64, heap: usize) -> BigVal { BigVal { stamp, len: heap, pad: [stamp as u8; 4096] } } fn stamp(&self) -> u64 { debug_assert!(self.pad[17] == self.pad[4095]); self.stamp } fn heap(&self) -> usize { self.len } fn set(&mut self, s: u64, h: usize) { self.stamp = s; self.len = h; self.pad = [s as u8; 4096]; } }

/// An over-aligned value (the bucket type inherits the alignment).
#[derive(Clone, Debug, PartialEq)]
#[repr(align(64))]
pub struct Aligned64 { pub stamp: u64, pub len: usize }
impl HeapSize for Aligned64 { fn heap_size(&self) -> usize { self.len } }
impl MVal for Aligned64 { fn mk(stamp: u64, heap: usize) -> Aligned64 { Aligned64 { stamp, len: heap } } fn stamp(&self) -> u64 { assert_eq!(self as *const Aligned64 as usize % 64, 0, "misaligned value handed out"); self.stamp } fn heap(&self) -> usize { self.len } fn set(&mut self, s: u64, h: usize) { self.stamp = s; self.len = h; } }

impl MKey for Box<str> { fn mk(id: u32) -> Box<str> { format!("boxed-key-{}", id).into_boxed_str() } fn id(&self) -> u32 { self[10..].parse().unwrap() } }
impl MKey for (u8, u32) { fn mk(id: u32) -> (u8, u32) { ((id % 3) as u8, id) } fn id(&self) -> u32 { self.1 } }

#[derive(Clone, Debug, PartialEq)]
struct MEnt { id: u32, stamp: u64, heap: usize, size: usize }

struct Model { ents: Vec<MEnt>, max: usize }
impl Model {
    fn cur(&self) -> u128 { self.ents.iter().map(|e| e.size as u128).sum() }
    fn pos(&self, id: u32) -> Option<usize> { self.ents.iter().position(|e| e.id == id) }
    /// evict least-recently-used entries (never index `keep`) until `extra` more bytes fit
    fn make_room(&mut self, extra: u128, keep_last: bool) { while self.cur() + extra > self.max as u128 && self.ents.len() > keep_last as usize { self.ents.remove(0); } }
}

fn fail(out: &mut RunOut, prop: &'static str, sig: &str, msg: String, cfg: &HistCfg, log: &[String]) {
    *out.viol_counts.entry(prop).or_insert(0) += 1;
    if out.failures.iter().filter(|f| f.prop == prop && f.sig == sig).count() < 3 {
        let tail: Vec<String> = log.iter().rev().take(60).rev().cloned().collect();
        out.failures.push(Failure { prop, sig: sig.to_string(), msg, cfg: cfg.clone(), ops: vec![tail.join("; ")], at: 0, inject: None, rerun: true });
    }
}

pub fn run_one<K: MKey, V: MVal>(label: &'static str, rng: &mut Rng, out: &mut RunOut) {
    let e0 = entry_size(&K::mk(0), &V::mk(0, 0));
    let universe = rng.range(2, 12) as u32;
    let typical = e0 + 40;
    let max0 = match rng.below(8) { 0 => usize::MAX, 1 => e0, 2 => e0 - 1, 3 => 0, _ => typical * rng.range(1, 9) + rng.usize_below(typical) };
    let hk = TH_KINDS[rng.usize_below(TH_KINDS.len())];
    let cap0 = [None, Some(0), Some(1), Some(9)][rng.usize_below(4)];
    let cfg = HistCfg { hk, cap0, max: max0, universe, events: 0, extreme: false };
    let th = TH(hk, next_hasher_seed());
    let mut c: LruCache<K, V, TH> = match cap0 { None => LruCache::with_hasher(max0, th), Some(n) => LruCache::with_capacity_and_hasher(max0, n, th) };
    let mut m = Model { ents: Vec::new(), max: max0 };
    let mut log: Vec<String> = vec![format!("[{}] {}", label, cfg.to_text())];
    let mut stamp = 0u64;
    let mut last_err: Option<TryInsertError<K, V>> = None;
    let mut last_ins_err: Option<InsertError<K, V>> = None;
    let mut last_mut_err: Option<MutateError<K, V>> = None;
    let size_of = |id: u32, heap: usize| entry_size(&K::mk(id), &V::mk(0, heap));
    for _ in 0..rng.range(10, 120) {
        out.stats.events += 1;
        stamp += 1;
        let id = rng.below(universe as u64) as u32;
        // a heap size aimed at the thresholds of the current state
        let cur = m.cur() as usize;
        let free = m.max.saturating_sub(cur);
        let heap = match rng.below(9) { 0 => 0, 1 => rng.usize_below(40), 2 => free.saturating_sub(e0), 3 => free.saturating_sub(e0) + 1, 4 => m.max.saturating_sub(e0 + 40), 5 => m.max.saturating_sub(e0).saturating_add(1).min(usize::MAX / 4), 6 => rng.usize_below(typical * 3), _ => rng.usize_below(90) };
        let heap = heap.min(usize::MAX / 4);
        let kind = rng.below(16);
        let mut prop: &'static str = "C04";
        let mut bad: Option<String> = None;
        let what: String = match kind {
            0..=2 => {
                prop = "C10";
                let es = size_of(id, heap);
                let r = c.insert(K::mk(id), V::mk(stamp, heap));
                if let Err(e) = &r { out.stats.count("c10_error_values_inspected"); let copy = e.clone(); let mut slot = last_ins_err.take().unwrap_or_else(|| e.clone()); slot.clone_from(e); if copy != *e || slot != *e || format!("{:?}", slot) != format!("{:?}", e) { bad = Some(format!("copies of the InsertError value differ from it: {:?} / {:?} vs {:?}", copy, slot, e)); } last_ins_err = Some(copy); }
                if es > m.max {
                    match r { Err(InsertError::EntryTooLarge { key, value, entry_size, max_size }) => { if key.id() != id || value.stamp() != stamp || entry_size != es || max_size != m.max { bad = Some(format!("EntryTooLarge carries ({:?}, {:?}, {}, {}), expected the pair, {} and {}", key, value, entry_size, max_size, es, m.max)); } } other => bad = Some(format!("entry of size {} > limit {} was not rejected with EntryTooLarge: {:?}", es, m.max, other.map(|o| o.map(|v| v.stamp())).map_err(|_| "other error"))) }
                } else {
                    let old = m.pos(id).map(|p| m.ents.remove(p));
                    m.make_room(es as u128, false);
                    m.ents.push(MEnt { id, stamp, heap, size: es });
                    match r { Ok(o) => { if o.as_ref().map(|v| v.stamp()) != old.as_ref().map(|e| e.stamp) { bad = Some(format!("returned {:?}, the model returns the old value {:?}", o, old)); } } Err(_) => bad = Some(format!("entry of size {} <= limit {} was rejected", es, m.max)) }
                }
                format!("insert {} heap {}", id, heap)
            }
            3 => {
                prop = "C10";
                let es = size_of(id, heap);
                let cur = m.cur();
                let r = c.try_insert(K::mk(id), V::mk(stamp, heap));
                let want = if es > m.max { 1 } else if es as u128 > m.max as u128 - cur { 2 } else if m.pos(id).is_some() { 3 } else { 0 };
                let got = match &r { Ok(()) => 0, Err(TryInsertError::EntryTooLarge { .. }) => 1, Err(TryInsertError::WouldEjectLru { .. }) => 2, Err(TryInsertError::OccupiedEntry { .. }) => 3 };
                // the error value and its copies: the pair handed back, the figures, Clone / clone_from / PartialEq
                if let Err(e) = &r {
                    out.stats.count("c10_error_values_inspected");
                    let (ek, ev) = e.entry();
                    let figures_ok = match e { TryInsertError::EntryTooLarge { entry_size, max_size, .. } => *entry_size == es && *max_size == m.max, TryInsertError::WouldEjectLru { entry_size, free_memory, .. } => *entry_size == es && *free_memory as u128 == m.max as u128 - cur, TryInsertError::OccupiedEntry { .. } => true };
                    if ek.id() != id || ev.stamp() != stamp || ev.heap() != heap || e.key().id() != id || e.value().stamp() != stamp || !figures_ok { bad = Some(format!("the error value {:?} does not carry the pair passed in with accurate figures (entry_size {}, limit {}, free {})", e, es, m.max, m.max as u128 - cur)); }
                    let copy = e.clone();
                    if copy != *e { bad = Some(format!("a clone of the error value differs from it: {:?} vs {:?}", copy, e)); }
                    if let Some(prev) = last_err.take() { let mut slot: TryInsertError<K, V> = prev; slot.clone_from(e); if slot != *e { bad = Some(format!("clone_from of the error value gives {:?}, the source is {:?}", slot, e)); } }
                    last_err = Some(copy);
                }
                if got != want { bad = Some(format!("outcome class {} (0 ok, 1 too large, 2 would eject, 3 occupied), expected {}", got, want)); }
                if want == 0 { m.ents.push(MEnt { id, stamp, heap, size: es }); }
                format!("try_insert {} heap {}", id, heap)
            }
            4 | 5 | 6 => {
                prop = "C11";
                let r = c.mutate(&K::mk(id), |v| { v.set(stamp, heap); stamp });
                if let Err(e) = &r { out.stats.count("c11_error_values_inspected"); let copy = e.clone(); let mut slot = last_mut_err.take().unwrap_or_else(|| e.clone()); slot.clone_from(e); if copy != *e || slot != *e || format!("{:?}", slot) != format!("{:?}", e) { bad = Some(format!("copies of the MutateError value differ from it: {:?} / {:?} vs {:?}", copy, slot, e)); } last_mut_err = Some(copy); }
                match m.pos(id) {
                    None => { if !matches!(r, Ok(None)) { bad = Some("mutate of an absent key did not return Ok(None)".to_string()); } }
                    Some(p) => {
                        let old = m.ents.remove(p);
                        let es = size_of(id, heap);
                        if es > m.max {
                            match r { Err(MutateError::EntryTooLarge { key, value, old_entry_size, new_entry_size, max_size }) => { if key.id() != id || value.stamp() != stamp || value.heap() != heap || old_entry_size != old.size || new_entry_size != es || max_size != m.max { bad = Some(format!("EntryTooLarge carries ({:?}, {:?}, old {}, new {}, max {}), expected the mutated pair, {}, {}, {}", key, value, old_entry_size, new_entry_size, max_size, old.size, es, m.max)); } } other => bad = Some(format!("value grown to entry size {} > limit {}: expected EntryTooLarge, got {:?}", es, m.max, other.map_err(|_| "error"))) }
                        } else {
                            m.ents.push(MEnt { id, stamp, heap, size: es });
                            // the mutated entry is most-recently-used: older entries go until everything fits
                            while m.cur() > m.max as u128 && m.ents.len() > 1 { m.ents.remove(0); }
                            if !matches!(r, Ok(Some(s)) if s == stamp) { bad = Some(format!("closure result not forwarded: {:?}", r.map_err(|_| "error"))); }
                        }
                    }
                }
                format!("mutate {} -> heap {}", id, heap)
            }
            7 => { prop = "C03"; let nm = match rng.below(5) { 0 => 0, 1 => cur, 2 => cur.saturating_sub(1), 3 => max0, _ => rng.usize_below(typical * 6) }; c.set_max_size(nm); m.max = nm; m.make_room(0, false); format!("set_max_size {}", nm) }
            8 => { prop = "C05"; let r = c.get(&K::mk(id)).map(|v| v.stamp()); let w = m.pos(id).map(|p| { let e = m.ents.remove(p); m.ents.push(e.clone()); e.stamp }); if r != w { bad = Some(format!("returned {:?}, model {:?}", r, w)); } format!("get {}", id) }
            9 => { prop = "C05"; c.touch(&K::mk(id)); if let Some(p) = m.pos(id) { let e = m.ents.remove(p); m.ents.push(e); } format!("touch {}", id) }
            10 => { let r = c.peek(&K::mk(id)).map(|v| v.stamp()); let w = m.pos(id).map(|p| m.ents[p].stamp); if r != w || c.contains(&K::mk(id)) != w.is_some() { bad = Some(format!("peek/contains returned {:?}, model {:?}", r, w)); } format!("peek {}", id) }
            11 => { let r = c.remove(&K::mk(id)).map(|v| v.stamp()); let w = m.pos(id).map(|p| m.ents.remove(p).stamp); if r != w { bad = Some(format!("returned {:?}, model {:?}", r, w)); } format!("remove {}", id) }
            12 => { let lru = rng.chance(1, 2); let r = if lru { c.remove_lru() } else { c.remove_mru() }.map(|(k, v)| (k.id(), v.stamp())); let w = if m.ents.is_empty() { None } else { let e = if lru { m.ents.remove(0) } else { m.ents.pop().unwrap() }; Some((e.id, e.stamp)) }; if r != w { bad = Some(format!("returned {:?}, model {:?}", r, w)); } format!("remove_{}", if lru { "lru" } else { "mru" }) }
            13 => { prop = "C15"; let mask = rng.next(); c.retain(|k, _| (mask >> (k.id() % 64)) & 1 == 1); m.ents.retain(|e| (mask >> (e.id % 64)) & 1 == 1); "retain".to_string() }
            14 => { prop = "C13"; match rng.below(4) { 0 => c.reserve(rng.usize_below(40)), 1 => c.shrink_to_fit(), 2 => c.shrink_to(rng.usize_below(12)), _ => { let _ = c.try_reserve(rng.usize_below(40)); } } "capacity operation".to_string() }
            _ => { prop = "C14"; if rng.chance(1, 4) { c.clear(); m.ents.clear(); "clear".to_string() } else { let d = c.clone(); if rng.chance(1, 2) { c = d; "clone (continuing with the clone)".to_string() } else { drop(d); "clone (dropped)".to_string() } } }
        };
        log.push(what.clone());
        out.stats.eval(prop, mix(&[4242, kind, label.len() as u64, m.ents.len().min(6) as u64, bad.is_some() as u64]));
        out.stats.countf(format_args!("model_ops_{}", label));
        if let Some(b) = bad { fail(out, prop, "model-return", format!("[{}] {}: {}", label, what, b), &cfg, &log); return; }
        // ---- complete observable state
        let got: Vec<(u32, u64, usize, usize)> = c.iter().map(|(k, v)| (k.id(), v.stamp(), v.heap(), entry_size(k, v))).collect();
        let want: Vec<(u32, u64, usize, usize)> = m.ents.iter().map(|e| (e.id, e.stamp, e.heap, e.size)).collect();
        if got != want { fail(out, prop, "model-contents", format!("[{}] after {}: contents LRU->MRU (id, stamp, heap, entry_size) {:?}, the sequential model holds {:?}", label, what, got, want), &cfg, &log); return; }
        if c.current_size() as u128 != m.cur() || c.len() != m.ents.len() || c.is_empty() != m.ents.is_empty() { fail(out, "C02", "model-sum", format!("[{}] after {}: current_size() = {}, len() = {}; the model's entries sum to {} ({} entries)", label, what, c.current_size(), c.len(), m.cur(), m.ents.len()), &cfg, &log); return; }
        if c.current_size() > c.max_size() || c.max_size() != m.max { fail(out, "C01", "model-bound", format!("[{}] after {}: current_size() = {}, max_size() = {} (model limit {})", label, what, c.current_size(), c.max_size(), m.max), &cfg, &log); return; }
        let (lru, mru) = (c.peek_lru().map(|(k, _)| k.id()), c.peek_mru().map(|(k, _)| k.id()));
        if lru != m.ents.first().map(|e| e.id) || mru != m.ents.last().map(|e| e.id) { fail(out, "C05", "model-ends", format!("[{}] after {}: peek_lru/peek_mru = {:?}/{:?}", label, what, lru, mru), &cfg, &log); return; }
    }
    out.stats.histories += 1;
}

/// Zero-sized key types: there is exactly one key. The model is an Option.
pub fn run_zst_key<K: Eq + Hash + Clone + Default + lru_mem::MemSize + std::fmt::Debug>(label: &'static str, rng: &mut Rng, out: &mut RunOut) {
    let hk = TH_KINDS[rng.usize_below(TH_KINDS.len())];
    let use_default_hasher = rng.chance(1, 3);
    let cfg = HistCfg { hk: if use_default_hasher { 4 } else { hk }, cap0: None, max: 10_000, universe: 1, events: 0, extreme: false };
    let log = vec![format!("[{}] {}", label, cfg.to_text())];
    macro_rules! body { ($c:expr) => {{
        let mut c = $c;
        let mut model: Option<u64> = None;
        for step in 0..rng.range(5, 60) as u64 {
            out.stats.events += 1;
            out.stats.countf(format_args!("model_ops_{}", label));
            let kind = rng.below(10);
            out.stats.eval("C04", mix(&[4343, kind, model.is_some() as u64, label.len() as u64]));
            let k = K::default();
            let mut bad: Option<String> = None;
            let name = match kind {
                0 | 1 => { let r = c.insert(k.clone(), step).ok().flatten(); if r != model { bad = Some(format!("insert returned {:?}, model {:?}", r, model)); } model = Some(step); "insert" }
                2 => { if c.contains(&k) != model.is_some() { bad = Some("contains disagrees with the model".into()); } "contains" }
                3 => { if c.peek(&k).copied() != model { bad = Some(format!("peek returned {:?}, model {:?}", c.peek(&k), model)); } "peek" }
                4 => { if c.get(&k).copied() != model { bad = Some(format!("get disagrees with the model {:?}", model)); } "get" }
                5 => { let r = c.remove(&k); if r != model { bad = Some(format!("remove returned {:?}, model {:?}", r, model)); } model = None; "remove" }
                6 => { let r = c.mutate(&k, |v| { *v += 1; *v }).ok().flatten(); let w = model.map(|v| v + 1); if r != w { bad = Some(format!("mutate returned {:?}, model {:?}", r, w)); } model = w; "mutate" }
                7 => { match rng.below(3) { 0 => c.reserve(rng.usize_below(20)), 1 => c.shrink_to_fit(), _ => { let _ = c.try_reserve(3); } } "capacity operation" }
                8 => { let r = c.try_insert(k.clone(), step).is_ok(); if r != model.is_none() { bad = Some(format!("try_insert ok = {}, model holds {:?}", r, model)); } if model.is_none() { model = Some(step); } "try_insert" }
                _ => { let d = c.clone(); if d.peek(&k).copied() != model || d.len() != model.is_some() as usize { bad = Some("a clone disagrees with the model".into()); } if rng.chance(1, 2) { c = d; } "clone" }
            };
            let listed: Vec<u64> = c.iter().map(|(_, v)| *v).collect();
            if bad.is_none() && (listed != model.into_iter().collect::<Vec<_>>() || c.len() != model.is_some() as usize || c.peek(&k).copied() != model) { bad = Some(format!("after {}: traversal lists {:?}, len() = {}, peek = {:?}; the model holds {:?}", name, listed, c.len(), c.peek(&k), model)); }
            if let Some(b) = bad { fail(out, "C04", "zst-key", format!("[{}] {}: {}", label, name, b), &cfg, &log); fail(out, "C07", "zst-key", format!("[{}] {}: {}", label, name, b), &cfg, &log); return; }
        }
    }}; }
    if use_default_hasher { body!(LruCache::<K, u64>::new(cfg.max)); } else { body!(LruCache::<K, u64, TH>::with_hasher(cfg.max, TH(hk, next_hasher_seed()))); }
    out.stats.histories += 1;
}

pub fn run_model(seed: u64, budget: u64, out: &mut RunOut) {
    let mut rng = Rng::new(seed ^ 0x30de1);
    while out.stats.events < budget {
        run_one::<u32, Span>("K=u32,V=Copy-span", &mut rng, out);
        run_one::<PKey, Span>("K=Copy-declared,V=Copy-span", &mut rng, out);
        run_one::<u32, DSpan>("K=u32,V=span-with-Drop", &mut rng, out);
        run_one::<PKey, MSpan>("K=Copy-declared,V=ManuallyDrop-span", &mut rng, out);
        run_one::<String, Span>("K=String,V=Copy-span", &mut rng, out);
        run_one::<u32, BigVal>("K=u32,V=4KiB-inline", &mut rng, out);
        run_one::<Box<str>, Aligned64>("K=Box<str>,V=align64", &mut rng, out);
        run_one::<(u8, u32), DSpan>("K=(u8,u32),V=span-with-Drop", &mut rng, out);
        run_zst_key::<()>("K=()", &mut rng, out);
        run_zst_key::<[u8; 0]>("K=[u8;0]", &mut rng, out);
        run_zst_key::<std::marker::PhantomData<u32>>("K=PhantomData", &mut rng, out);
    }
}

impl MKey for String { fn mk(id: u32) -> String { format!("key-{}", id).into_boxed_str().into_string() } fn id(&self) -> u32 { self[4..].parse().unwrap() } }
