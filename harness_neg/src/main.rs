//! C18, second sentence, negative direction: programs that mutate, drop or move the cache while they still hold a
//! reference or a borrowing iterator obtained from it. NONE of the blocks below may pass the borrow checker; the driver
//! compiles this file and expects a borrow-check error inside every NEG block (run/check.py, job `neg_compile`).
//! Everything here type-checks, so that the borrow checker runs at all.
#![allow(unused)]
use lru_mem::LruCache;
use std::hash::BuildHasher;

type C = LruCache<String, String>;
fn mk() -> C { let mut c: C = LruCache::new(1000); c.insert("a".to_owned(), "b".to_owned()).unwrap(); c }

// NEG-BEGIN get then clear
fn n01() { let mut c = mk(); let r = c.get("a").unwrap(); c.clear(); println!("{}", r); }
// NEG-END
// NEG-BEGIN get_entry then clear
fn n02() { let mut c = mk(); let key = "a".to_owned(); let (k, v) = c.get_entry(&key).unwrap(); c.clear(); println!("{} {}", k, v); }
// NEG-END
// NEG-BEGIN get_entry then drop
fn n03() { let mut c = mk(); let key = "a".to_owned(); let (k, v) = c.get_entry(&key).unwrap(); drop(c); println!("{} {}", k, v); }
// NEG-END
// NEG-BEGIN get_lru then insert
fn n04() { let mut c = mk(); let (k, v) = c.get_lru().unwrap(); let _ = c.insert("x".to_owned(), "y".to_owned()); println!("{} {}", k, v); }
// NEG-END
// NEG-BEGIN peek then remove
fn n05() { let mut c = mk(); let r = c.peek("a").unwrap(); c.remove("a"); println!("{}", r); }
// NEG-END
// NEG-BEGIN peek_entry then set_max_size
fn n06() { let mut c = mk(); let (k, v) = c.peek_entry("a").unwrap(); c.set_max_size(0); println!("{} {}", k, v); }
// NEG-END
// NEG-BEGIN peek_lru then shrink_to_fit
fn n07() { let mut c = mk(); let (k, v) = c.peek_lru().unwrap(); c.shrink_to_fit(); println!("{} {}", k, v); }
// NEG-END
// NEG-BEGIN peek_mru then reserve
fn n08() { let mut c = mk(); let (k, v) = c.peek_mru().unwrap(); c.reserve(100); println!("{} {}", k, v); }
// NEG-END
// NEG-BEGIN iter then touch
fn n09() { let mut c = mk(); let mut it = c.iter(); c.touch("a"); println!("{:?}", it.next()); }
// NEG-END
// NEG-BEGIN keys then clear
fn n10() { let mut c = mk(); let mut it = c.keys(); c.clear(); println!("{:?}", it.next()); }
// NEG-END
// NEG-BEGIN values then drop
fn n11() { let c = mk(); let mut it = c.values(); drop(c); println!("{:?}", it.next_back()); }
// NEG-END
// NEG-BEGIN item of iter outlives the cache
fn n12() { let item; { let c = mk(); item = c.iter().next(); } println!("{:?}", item); }
// NEG-END
// NEG-BEGIN drain then len
fn n13() { let mut c = mk(); let mut d = c.drain(); let n = c.len(); println!("{:?} {}", d.next(), n); }
// NEG-END
// NEG-BEGIN drain then insert
fn n14() { let mut c = mk(); let mut d = c.drain(); let _ = c.insert("x".to_owned(), "y".to_owned()); println!("{:?}", d.next()); }
// NEG-END
// NEG-BEGIN hasher then clear
fn n15() { let mut c = mk(); let h = c.hasher(); c.clear(); println!("{}", h.hash_one(1u8)); }
// NEG-END
// NEG-BEGIN mutate closure uses the cache
fn n16() { let mut c = mk(); let _ = c.mutate("a", |v| { c.clear(); v.len() }); }
// NEG-END
// NEG-BEGIN retain predicate uses the cache
fn n17() { let mut c = mk(); c.retain(|k, _| c.contains(k)); }
// NEG-END
// NEG-BEGIN mutate result borrowed from the value
fn n18() { let mut c = mk(); let r: &str = c.mutate("a", |v| v.as_str()).unwrap().unwrap(); c.clear(); println!("{}", r); }
// NEG-END
// NEG-BEGIN cache moved while a reference is held
fn n19() { let mut c = mk(); let r = c.get("a").unwrap(); let d = c; println!("{} {}", r, d.len()); }
// NEG-END
// NEG-BEGIN get through a clone of the key then into_iter
fn n20() { let mut c = mk(); let r = c.peek("a").unwrap(); for _ in c { } println!("{}", r); }
// NEG-END

fn main() {}
