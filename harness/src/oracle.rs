//! Transition oracles: one facet per property, each computed from the *observed*
//! pre-state of the event. All size arithmetic is u128.

use crate::obs::{Ent, Obs};
use crate::ops::*;
use crate::types::*;
use std::collections::{BTreeMap, BTreeSet};

pub const PROPS: [&str; 20] = ["C01", "C02", "C03", "C04", "C05", "C06", "C07", "C08", "C09", "C10", "C11", "C12", "C13", "C14", "C15", "C16", "C17", "C18", "C19", "C20"];

#[derive(Clone, Debug)]
pub struct Viol { pub prop: &'static str, pub msg: String, pub sig: String }

/// Per-run statistics: evaluations and distinct abstract transitions per property,
/// named boundary counters (for the non-vacuity floors).
#[derive(Default)]
pub struct Stats {
    pub evals: BTreeMap<&'static str, u64>,
    pub distinct: BTreeMap<&'static str, BTreeSet<u64>>,
    pub counters: BTreeMap<String, u64>,
    pub maxima: BTreeMap<String, u64>,
    pub samples: BTreeMap<&'static str, Vec<String>>,
    pub events: u64,
    pub histories: u64,
}

impl Stats {
    pub fn eval(&mut self, prop: &'static str, key: u64) {
        *self.evals.entry(prop).or_insert(0) += 1;
        self.distinct.entry(prop).or_default().insert(key);
    }
    pub fn eval_only(&mut self, prop: &'static str) { *self.evals.entry(prop).or_insert(0) += 1; }
    pub fn count(&mut self, name: &str) { if cfg!(miri) { return; } *self.counters.entry(name.to_string()).or_insert(0) += 1; }
    pub fn countf(&mut self, a: std::fmt::Arguments) { if cfg!(miri) { return; } self.count(&a.to_string()); }
    pub fn maxf(&mut self, a: std::fmt::Arguments, n: u64) { if cfg!(miri) { return; } self.max(&a.to_string(), n); }
    pub fn add(&mut self, name: &str, n: u64) { *self.counters.entry(name.to_string()).or_insert(0) += n; }
    pub fn max(&mut self, name: &str, n: u64) { if cfg!(miri) { return; } let e = self.maxima.entry(name.to_string()).or_insert(0); if n > *e { *e = n; } }
    pub fn sample(&mut self, prop: &'static str, s: String) { let v = self.samples.entry(prop).or_default(); if v.len() < 6 { v.push(s); } }
}

pub struct Event<'a> {
    pub pre: &'a Obs,
    pub op: &'a Op,
    pub out: &'a Outcome,
    /// None when the operation consumed the cache
    pub post: Option<&'a Obs>,
    pub ticks: [u64; NCLASS],
    pub base: usize,
    pub hk: u8,
    /// the clone produced by Op::CloneCache
    pub clone: Option<&'a Obs>,
    /// observation of the source of Op::CloneFrom before the call
    pub clone_src: Option<&'a Obs>,
    /// capacity a fresh cache gets for `with_capacity(n)` — asked of the real library
    pub fresh_cap: &'a dyn Fn(usize) -> usize,
}

fn pos_class(pre: &Obs, id: Option<u32>) -> u64 {
    match id.and_then(|i| pre.pos(i)) {
        None => 0,
        Some(_) if pre.ents.len() == 1 => 1,
        Some(0) => 2,
        Some(p) if p + 1 == pre.ents.len() => 3,
        Some(_) => 4,
    }
}
fn n_class(n: usize) -> u64 { match n { 0 => 0, 1 => 1, 2 => 2, 3..=5 => 3, _ => 4 } }
fn len_class(n: usize) -> u64 { match n { 0 => 0, 1 => 1, 2..=4 => 2, 5..=16 => 3, 17..=128 => 4, _ => 5 } }

/// number of least-recently-used entries of `rest` that must go so that the remainder plus `incoming` fits
pub fn minimal_prefix(rest: &[&Ent], incoming: u128, max: u128, use_rec: bool, base: usize) -> usize {
    let size = |e: &Ent| if use_rec { e.rec as u128 } else { e.esize(base) };
    let mut total: u128 = rest.iter().map(|e| size(e)).sum::<u128>() + incoming;
    let mut n = 0;
    while total > max && n < rest.len() { total -= size(rest[n]); n += 1; }
    n
}

pub struct Spec {
    /// ids expected to leave (in LRU order), excluding a key replaced by an insert of the same id
    pub dep: Vec<u32>,
    /// id that must be most-recently-used afterwards
    pub promoted: Option<u32>,
    /// true if the operation is one that may evict to make room
    pub may_evict: bool,
    /// the prefix length when eviction for room applies
    pub evict_n: usize,
    pub exact_fit: bool,
    pub one_over: bool,
}

/// What the properties say must happen, computed from the observed pre-state and the
/// operation's arguments only (classification of insert/mutate by their stated thresholds).
pub fn spec(ev: &Event) -> Spec {
    let pre = ev.pre; let base = ev.base;
    let max = pre.max as u128;
    let mut s = Spec { dep: vec![], promoted: None, may_evict: false, evict_n: 0, exact_fit: false, one_over: false };
    let all: Vec<&Ent> = pre.ents.iter().collect();
    match ev.op {
        Op::Insert { id, kh, vh } => {
            let size = *kh as u128 + *vh as u128 + base as u128;
            // classification itself belongs to C10; eviction/order facets follow the observed outcome
            if !ev.out.tag.starts_with("err_") {
                let rest: Vec<&Ent> = pre.ents.iter().filter(|e| e.id != *id).collect();
                let n = minimal_prefix(&rest, size, max, true, base);
                s.dep = rest[..n].iter().map(|e| e.id).collect();
                s.promoted = Some(*id); s.may_evict = true; s.evict_n = n;
                let rest_sum: u128 = rest.iter().map(|e| e.rec as u128).sum();
                s.exact_fit = rest_sum + size == max;
                s.one_over = rest_sum + size == max + 1;
            }
        }
        Op::TryInsert { id, kh, vh } => {
            let size = *kh as u128 + *vh as u128 + base as u128;
            let free = max.saturating_sub(pre.cur as u128);
            if ev.out.tag == "ok" { s.promoted = Some(*id); }
            s.exact_fit = size == free; s.one_over = size == free + 1;
        }
        Op::Get { id, .. } | Op::GetEntry { id, .. } | Op::Touch { id, .. } => { if pre.find(*id).is_some() { s.promoted = Some(*id); } }
        Op::GetLru => { s.promoted = pre.ents.first().map(|e| e.id); }
        Op::Remove { id, .. } | Op::RemoveEntry { id, .. } => { if pre.find(*id).is_some() { s.dep = vec![*id]; } }
        Op::RemoveLru => { s.dep = pre.ents.first().map(|e| e.id).into_iter().collect(); }
        Op::RemoveMru => { s.dep = pre.ents.last().map(|e| e.id).into_iter().collect(); }
        Op::Mutate { id, vh, .. } => {
            if let Some(e) = pre.find(*id) {
                let new_size = e.kheap as u128 + *vh as u128 + base as u128;
                let old_size = e.rec as u128;
                // classification itself belongs to C11; eviction/order facets follow the observed outcome
                if ev.out.tag == "err_too_large" { s.dep = vec![*id]; }
                else if ev.out.tag == "ok_some" {
                    s.promoted = Some(*id);
                    if new_size > old_size {
                        let rest: Vec<&Ent> = pre.ents.iter().filter(|x| x.id != *id).collect();
                        let n = minimal_prefix(&rest, new_size, max, true, base);
                        s.dep = rest[..n].iter().map(|x| x.id).collect();
                        s.may_evict = true; s.evict_n = n;
                        let rest_sum: u128 = rest.iter().map(|x| x.rec as u128).sum();
                        s.exact_fit = rest_sum + new_size == max; s.one_over = rest_sum + new_size == max + 1;
                    }
                }
            }
        }
        Op::SetMax { m } => {
            let n = minimal_prefix(&all, 0, *m as u128, true, base);
            s.dep = all[..n].iter().map(|e| e.id).collect(); s.may_evict = true; s.evict_n = n;
            s.exact_fit = pre.sum_rec() == *m as u128; s.one_over = pre.sum_rec() == *m as u128 + 1;
        }
        Op::Retain { reject } => { s.dep = pre.ents.iter().filter(|e| reject.contains(&e.id)).map(|e| e.id).collect(); }
        Op::Clear => { s.dep = pre.ids(); }
        Op::Iterate { kind, .. } if *kind == IT_DRAIN => { s.dep = pre.ids(); }
        _ => {}
    }
    s
}

/// statistics only (never a verdict): does capacity() fall short of what the bucket count offers, i.e. are there tombstones
pub fn has_tombstones(o: &Obs) -> bool {
    let full = if o.buckets < 8 { o.buckets.saturating_sub(1) } else { o.buckets / 8 * 7 };
    o.cap < full
}

/// Which property specifies the outcome of an operation (for unexpected panics).
pub fn panic_owner(op: &Op) -> &'static str {
    match op {
        Op::Insert { .. } | Op::TryInsert { .. } => "C10",
        Op::Mutate { .. } => "C11",
        Op::Reserve { .. } | Op::TryReserve { .. } | Op::TryReserveFail { .. } | Op::ShrinkTo { .. } | Op::ShrinkFit => "C13",
        Op::Retain { .. } => "C15",
        Op::Iterate { .. } | Op::Into { .. } => "C12",
        Op::CloneCache => "C14",
        Op::SetMax { .. } => "C03",
        Op::Debug | Op::PeekLru | Op::PeekMru | Op::GetLru => "C05",
        _ => "C04",
    }
}

fn v(out: &mut Vec<Viol>, prop: &'static str, sig: &str, msg: String) { out.push(Viol { prop, msg, sig: sig.to_string() }); }

/// Evaluate every facet on one event of one cache.
/// reserve documents a panic when the new allocation size overflows usize
pub fn documented_panic(op: &Op, pre: &Obs) -> bool { matches!(op, Op::Reserve { n } if pre.len.checked_add(*n).is_none() || *n > (usize::MAX >> 4)) }

pub fn check_event(ev: &Event, st: &mut Stats, out: &mut Vec<Viol>) {
    let pre = ev.pre; let op = ev.op; let o = ev.out; let base = ev.base;
    st.events += 1;
    let kind = op.kind_index();
    let tgt = op.target_id();
    let pc = pos_class(pre, match op { Op::GetLru | Op::RemoveLru | Op::PeekLru => pre.ents.first().map(|e| e.id), Op::RemoveMru | Op::PeekMru => pre.ents.last().map(|e| e.id), _ => tgt });
    // ------------------------------------------------------------ unexpected panic
    if let Some(p) = &o.panic {
        let owner = panic_owner(op);
        // reserve documents a panic on capacity overflow
        let documented = documented_panic(op, pre);
        if !documented {
            let sig = if p.contains("overflow") { "panic-arith-overflow" } else { "panic-unexpected" };
            v(out, owner, sig, format!("{} panicked: {}", op.to_text(), p));
            if p.contains("overflow") && pre.max > (usize::MAX >> 2) {
                // the update was abandoned half-way: bound and accounting are no longer specified by anything
                v(out, "C01", sig, format!("{} panicked on size arithmetic with limit {}: {}", op.to_text(), pre.max, p));
                v(out, "C02", sig, format!("{} panicked on size arithmetic with limit {}: {}", op.to_text(), pre.max, p));
            }
        } else if let Some(post) = ev.post {
            // the documented refusal is still a capacity operation: contents, order, sizes and structure stay as they were
            st.count("c13_documented_reserve_panics");
            for m in &post.g1 { v(out, "C13", "not-transparent", format!("{} (refused with its documented panic) left the structure incoherent: {}", op.to_text(), m)); }
            if post.logical() != pre.logical() || (post.len, post.cur, post.max) != (pre.len, pre.cur, pre.max) || post.cap < pre.cap.min(pre.len) {
                v(out, "C13", "not-transparent", format!("{} (refused with its documented panic) changed the cache: {:?} -> {:?}", op.to_text(), pre.ids(), post.ids()));
            }
        }
        return;
    }
    let post = match ev.post { Some(p) => p, None => { check_consumed(ev, st, out); return; } };
    // ------------------------------------------------------------ C07 gates
    st.eval("C07", crate::rng::mix(&[kind, len_class(pre.len), (post.table_at != pre.table_at) as u64, ev.hk as u64, n_class(post.len)]));
    for m in &post.g1 { v(out, "C07", "g1", format!("after {}: {}", op.to_text(), m)); }
    for m in &post.g2 { v(out, "C07", "g2", format!("after {}: {}", op.to_text(), m)); v(out, "C12", "g2", format!("after {}: {}", op.to_text(), m)); v(out, "C05", "g2", format!("after {}: {}", op.to_text(), m)); }
    for m in &post.g3 { v(out, "C07", "g3", format!("after {}: {}", op.to_text(), m)); v(out, "C04", "g3", format!("after {}: {}", op.to_text(), m)); }
    // An operation that leaves the list/table structure incoherent has also failed what its own property says about
    // the entries that remain (their relative order is what traversal reports; "nothing else is touched"; "exactly as it was"):
    // retain -> C15, capacity operations -> C13, iterators -> C12, clone -> C14, mutate -> C11, promotions -> C05,
    // rejected insertions -> C10. Other operations' properties speak about lookups or sizes only and are left alone.
    if !post.g1.is_empty() && pre.g1.is_empty() {
        let owner: Option<(&'static str, &str)> = match op {
            Op::Reserve { .. } | Op::TryReserve { .. } | Op::TryReserveFail { .. } | Op::ShrinkTo { .. } | Op::ShrinkFit => Some(("C13", if o.tag.starts_with("err_") { "failed-reserve-changed" } else { "not-transparent" })),
            Op::Retain { .. } => Some(("C15", "structure-broken")),
            Op::Iterate { .. } => Some(("C12", "structure-broken")),
            Op::CloneCache => Some(("C14", "structure-broken")),
            Op::Mutate { .. } => Some(("C11", "structure-broken")),
            Op::Get { .. } | Op::GetEntry { .. } | Op::Touch { .. } | Op::GetLru | Op::Peek { .. } | Op::PeekEntry { .. } | Op::PeekLru | Op::PeekMru | Op::Contains { .. } | Op::Debug => Some(("C05", "structure-broken")),
            Op::Insert { .. } | Op::TryInsert { .. } if o.tag.starts_with("err_") => Some(("C10", "not-atomic")),
            _ => None,
        };
        if let Some((prop, sig)) = owner { v(out, prop, sig, format!("{} (outcome {}) left the cache incoherent, so the entries that remain are no longer what/where they were: {}", op.to_text(), o.tag, post.g1[0])); }
    }
    for m in &post.g1 { if m.contains("key id occurs twice") { v(out, "C04", "dup-key", format!("after {}: {}", op.to_text(), m)); } }
    if !post.g1.is_empty() { return; }
    // a forgotten iterator: C17 territory (handled by the engine); only the yields are judged here
    if let Op::Iterate { kind, calls, forget: true, .. } = op { check_iter(ev, *kind, calls, true, Some(post), st, out); return; }
    if post.table_at != pre.table_at { st.count("reallocations"); }
    st.max("max_len", post.len as u64);
    let sp = spec(ev);
    let pre_ids = pre.ids();
    let post_ids = post.ids();
    let insert_target = match op { Op::Insert { id, .. } | Op::TryInsert { id, .. } => Some(*id), _ => None };
    // observed departures: ids of pre that are not in post (a replaced key stays present)
    let dep: Vec<u32> = pre_ids.iter().filter(|i| !post.has(**i)).cloned().collect();
    let pre_nonempty = !pre.ents.is_empty();

    // ------------------------------------------------------------ C01
    st.eval("C01", crate::rng::mix(&[kind, (sp.exact_fit as u64) | (sp.one_over as u64) << 1, n_class(dep.len()), (post.max == 0) as u64 | ((post.max == usize::MAX) as u64) << 1, ev.hk as u64, pc]));
    if post.cur > post.max { v(out, "C01", "cur>max", format!("after {}: current_size() = {} > max_size() = {}", op.to_text(), post.cur, post.max)); }
    let true_sum = post.sum_esize(base);
    if true_sum > post.max as u128 { v(out, "C01", "sum>max", format!("after {}: sum of entry sizes held = {} > max_size() = {}", op.to_text(), true_sum, post.max)); }
    // ------------------------------------------------------------ C02
    st.eval("C02", crate::rng::mix(&[kind, n_class(dep.len()), pc, (post.table_at != pre.table_at) as u64, o.tag.len() as u64, len_class(post.len)]));
    if post.cur as u128 != true_sum { v(out, "C02", "cur!=sum", format!("after {}: current_size() = {} but sum of entry_size over the {} held entries = {}", op.to_text(), post.cur, post.ents.len(), true_sum)); }
    if post.len != post.ents.len() { v(out, "C02", "len", format!("after {}: len() = {} but {} entries held", op.to_text(), post.len, post.ents.len())); }
    if (post.cur == 0) != post.empty { v(out, "C02", "zero-iff-empty", format!("after {}: current_size() = {} but is_empty() = {}", op.to_text(), post.cur, post.empty)); }
    if post.sum_rec() != post.cur as u128 { v(out, "C02", "cur!=sumrec", format!("after {}: current_size() = {} but recorded sizes sum to {}", op.to_text(), post.cur, post.sum_rec())); }
    for e in &post.ents { if e.rec as u128 != e.esize(base) { v(out, "C02", "rec!=esize", format!("after {}: entry {} is accounted with {} but entry_size(key, value) = {}", op.to_text(), e.id, e.rec, e.esize(base))); break; } }

    // ------------------------------------------------------------ clone_from: the target becomes a clone of the source (C14); nothing else applies
    if let (Op::CloneFrom { .. }, Some(src)) = (op, ev.clone_src) {
        st.eval("C14", crate::rng::mix(&[300, len_class(src.len), len_class(pre.len), ev.hk as u64, (pre.cap < src.cap) as u64, (pre.max != src.max) as u64]));
        st.count("c14_clone_from");
        if pre.max != src.max { st.count("c14_clone_from_different_limits"); } if pre.cap < src.cap && pre.len > 0 { st.count("c14_clone_from_into_smaller_nonempty"); }
        let a: Vec<_> = src.ents.iter().map(|e| (e.id, e.rec, e.kheap, e.vheap, e.stamp)).collect();
        let b: Vec<_> = post.ents.iter().map(|e| (e.id, e.rec, e.kheap, e.vheap, e.stamp)).collect();
        if a != b { v(out, "C14", "clone-contents", format!("after {}: target holds {:?}, source {:?}", op.to_text(), b, a)); }
        if post.cur != src.cur || post.max != src.max || post.len != src.len { v(out, "C14", "clone-scalars", format!("after {}: target cur/max/len = {}/{}/{}, source {}/{}/{}", op.to_text(), post.cur, post.max, post.len, src.cur, src.max, src.len)); }
        if post.cap < src.cap { v(out, "C14", "clone-capacity", format!("after {}: target capacity {} < source capacity {}", op.to_text(), post.cap, src.cap)); }
        let src_uids: BTreeSet<u64> = src.ents.iter().flat_map(|e| [e.kuid, e.vuid]).collect();
        if post.ents.iter().any(|e| src_uids.contains(&e.kuid) || src_uids.contains(&e.vuid)) || post.seal == src.seal { v(out, "C14", "clone-shares", format!("after {}: target shares objects or nodes with the source", op.to_text())); }
        if !post.g2.is_empty() || !post.g3.is_empty() { v(out, "C14", "clone-structure", format!("after {}: the target is not a coherent cache: {:?} {:?}", op.to_text(), post.g2, post.g3)); }
        st.eval("C20", crate::rng::mix(&[kind, len_class(src.len), 5]));
        let h = ev.ticks[C_HASH];
        if h > 2 + pre.len as u64 + src.len as u64 { v(out, "C20", "bound", format!("{} computed {} key hashes with {} entries in the source and {} leaving the target", op.to_text(), h, src.len, pre.len)); }
        return;
    }

    // ------------------------------------------------------------ C03
    if pre_nonempty || sp.may_evict {
        st.eval("C03", crate::rng::mix(&[kind, n_class(sp.evict_n), (sp.exact_fit as u64) | (sp.one_over as u64) << 1, pc, pre.find(tgt.unwrap_or(u32::MAX)).is_some() as u64, ev.hk as u64]));
        if dep != sp.dep {
            v(out, "C03", "dep-set", format!("{}: entries {:?} left the cache, expected {:?} (pre LRU->MRU sizes {:?}, max {}, cur {})", op.to_text(), dep, sp.dep,
                pre.ents.iter().map(|e| (e.id, e.rec)).collect::<Vec<_>>(), pre.max, pre.cur));
            if !sp.may_evict && dep.len() > sp.dep.len() { v(out, "C04", "lost", format!("{}: entries {:?} vanished during an operation that removes only {:?}", op.to_text(), dep, sp.dep)); }
        }
        if sp.may_evict && sp.evict_n >= 1 {
            // oldest first: key uids of the evicted run appear in the drop log in LRU order
            let depset: std::collections::HashSet<u32> = sp.dep.iter().cloned().collect();
            let want: Vec<u64> = pre.ents.iter().filter(|e| depset.contains(&e.id)).map(|e| e.kuid).collect();
            let wantset: std::collections::HashSet<u64> = want.iter().cloned().collect();
            let got: Vec<u64> = o.drops.iter().filter(|u| wantset.contains(u)).cloned().collect();
            if dep == sp.dep && got != want { v(out, "C03", "drop-order", format!("{}: evicted keys were dropped in order {:?}, LRU order is {:?}", op.to_text(), got, want)); }
        }
        if sp.evict_n >= 2 { st.count("multi_evictions"); }
        if sp.may_evict && sp.exact_fit { st.count("exact_fit"); if sp.evict_n == 0 { st.count("exact_fit_evicts_nothing"); } }
        if sp.may_evict && sp.one_over { st.count("one_over"); }
        if let Op::Insert { id, .. } = op { if pre.find(*id).is_some() && o.tag != "err_too_large" { st.count("replacements"); if sp.evict_n >= 1 { st.count("replace_then_evict"); } } }
        if let Op::Mutate { id, .. } = op { if pre.pos(*id) == Some(0) && pre.len > 1 && sp.may_evict { st.count("grow_the_lru"); if sp.evict_n >= 1 { st.count("grow_the_lru_evicting"); } } }
        if let Op::SetMax { m } = op { if *m == 0 { st.count("limit_zero"); } if *m == usize::MAX { st.count("limit_max"); } if (*m as u128) + 1 == pre.cur as u128 { st.count("limit_cur_minus_1"); } }
    }

    // ------------------------------------------------------------ C04
    {
        let present = tgt.and_then(|i| pre.find(i));
        let mut relevant = true;
        macro_rules! chk { ($cond:expr, $sig:expr, $msg:expr, $out:expr) => { if !($cond) { v($out, "C04", $sig, $msg); } } }
        match op {
            Op::Insert { id, .. } => {
                if o.tag != "err_too_large" {
                    chk!(o.v == present.map(|e| e.vuid), "insert-ret", format!("{} returned previous value {:?}, the map held {:?}", op.to_text(), o.v, present.map(|e| e.vuid)), out);
                    let now = post.find(*id);
                    // the value must be the one just stored; WHICH of two equal key objects is kept (the new one, as this library does,
                    // or the old one, as std's HashMap does) is not something C04 states
                    let key_ok = now.map(|e| Some(e.kuid) == o.in_k || Some(e.kuid) == present.map(|p| p.kuid)).unwrap_or(false);
                    chk!(now.map(|e| e.vuid) == o.in_v && key_ok, "insert-stored", format!("{}: afterwards the key maps to {:?}, inserted {:?}", op.to_text(), now.map(|e| (e.kuid, e.vuid)), (o.in_k, o.in_v)), out);
                }
            }
            Op::TryInsert { id, .. } => {
                if o.tag == "ok" { let now = post.find(*id); chk!(now.map(|e| (e.kuid, e.vuid)) == Some((o.in_k.unwrap_or(0), o.in_v.unwrap_or(0))), "insert-stored", format!("{}: afterwards the key maps to {:?}", op.to_text(), now.map(|e| (e.kuid, e.vuid))), out); }
            }
            Op::Get { .. } | Op::Peek { .. } => {
                chk!(o.v == present.map(|e| e.vuid) && (o.tag == "some") == present.is_some(), "lookup", format!("{} returned {:?}, the map holds {:?}", op.to_text(), o.v, present.map(|e| e.vuid)), out);
                st.countf(format_args!("lookup_{}_{}_{}", op.kind(), if present.is_some() { "hit" } else { "miss" }, if matches!(op, Op::Get { owned: true, .. } | Op::Peek { owned: true, .. }) { "owned" } else { "borrowed" }));
            }
            Op::GetEntry { .. } | Op::PeekEntry { .. } => {
                chk!(o.v == present.map(|e| e.vuid) && o.k == present.map(|e| e.kuid), "lookup", format!("{} returned {:?}, the map holds {:?}", op.to_text(), (o.k, o.v), present.map(|e| (e.kuid, e.vuid))), out);
                st.countf(format_args!("lookup_{}_{}_{}", op.kind(), if present.is_some() { "hit" } else { "miss" }, if matches!(op, Op::GetEntry { owned: true, .. } | Op::PeekEntry { owned: true, .. }) { "owned" } else { "borrowed" }));
            }
            Op::Contains { .. } => {
                chk!((o.tag == "true") == present.is_some(), "lookup", format!("{} returned {}, present = {}", op.to_text(), o.tag, present.is_some()), out);
                st.countf(format_args!("lookup_contains_{}_{}", if present.is_some() { "hit" } else { "miss" }, if matches!(op, Op::Contains { owned: true, .. }) { "owned" } else { "borrowed" }));
            }
            Op::Remove { .. } => chk!(o.v == present.map(|e| e.vuid), "remove-ret", format!("{} returned {:?}, the map held {:?}", op.to_text(), o.v, present.map(|e| e.vuid)), out),
            Op::RemoveEntry { .. } => chk!(o.v == present.map(|e| e.vuid) && o.k == present.map(|e| e.kuid), "remove-ret", format!("{} returned {:?}, the map held {:?}", op.to_text(), (o.k, o.v), present.map(|e| (e.kuid, e.vuid))), out),
            Op::RemoveLru => { let e = pre.ents.first(); chk!((o.k, o.v) == (e.map(|e| e.kuid), e.map(|e| e.vuid)), "remove-ret", format!("remove_lru returned {:?}, the LRU entry was {:?}", (o.k, o.v), e.map(|e| (e.kuid, e.vuid))), out); }
            Op::RemoveMru => { let e = pre.ents.last(); chk!((o.k, o.v) == (e.map(|e| e.kuid), e.map(|e| e.vuid)), "remove-ret", format!("remove_mru returned {:?}, the MRU entry was {:?}", (o.k, o.v), e.map(|e| (e.kuid, e.vuid))), out); }
            Op::Mutate { .. } => { if let Some(e) = present { chk!(o.closure_saw.map(|s| s.0) == Some(e.vuid), "mutate-saw", format!("{}: the closure saw value {:?}, the map holds {}", op.to_text(), o.closure_saw, e.vuid), out); } }
            _ => { relevant = pre_nonempty; }
        }
        // persistence of every key the operation does not address
        for e in &post.ents {
            if Some(e.id) == insert_target { continue; }
            match pre.find(e.id) {
                Some(p) => { if (p.kuid, p.vuid) != (e.kuid, e.vuid) { v(out, "C04", "persistence", format!("after {}: key {} now maps to ({}, {}), before ({}, {})", op.to_text(), e.id, e.kuid, e.vuid, p.kuid, p.vuid)); } }
                None => v(out, "C04", "phantom", format!("after {}: key {} appeared from nowhere", op.to_text(), e.id)),
            }
        }
        if relevant { st.eval("C04", crate::rng::mix(&[kind, pc, present.is_some() as u64, ev.hk as u64, (post.table_at != pre.table_at) as u64, len_class(pre.len), match op { Op::Get { owned, .. } | Op::GetEntry { owned, .. } | Op::Peek { owned, .. } | Op::PeekEntry { owned, .. } | Op::Contains { owned, .. } | Op::Touch { owned, .. } | Op::Remove { owned, .. } | Op::RemoveEntry { owned, .. } | Op::Mutate { owned, .. } => *owned as u64, _ => 2 }])); }
        if ev.hk == 0 { st.max("const_hasher_max_len", post.len as u64); }
    }

    // ------------------------------------------------------------ C05
    if pre_nonempty {
        let mut want: Vec<u32> = pre_ids.iter().filter(|i| post.has(**i)).cloned().collect();
        if let Some(p) = sp.promoted { want.retain(|i| *i != p); if post.has(p) { want.push(p); } }
        let got: Vec<u32> = post_ids.iter().filter(|i| pre.has(**i) || Some(**i) == sp.promoted).cloned().collect();
        st.eval("C05", crate::rng::mix(&[kind, pc, (post.table_at != pre.table_at) as u64, len_class(pre.len), sp.promoted.is_some() as u64, n_class(dep.len())]));
        if got != want { v(out, "C05", "order", format!("{}: recency order afterwards {:?}, expected {:?} (before {:?})", op.to_text(), got, want, pre_ids)); }
        match op {
            Op::PeekLru | Op::GetLru => { let e = pre.ents.first(); if (o.k, o.v) != (e.map(|e| e.kuid), e.map(|e| e.vuid)) { v(out, "C05", "peek-end", format!("{} returned {:?}, the least-recently-used entry is {:?}", op.to_text(), (o.k, o.v), e.map(|e| (e.kuid, e.vuid)))); } }
            Op::PeekMru => { let e = pre.ents.last(); if (o.k, o.v) != (e.map(|e| e.kuid), e.map(|e| e.vuid)) { v(out, "C05", "peek-end", format!("{} returned {:?}, the most-recently-used entry is {:?}", op.to_text(), (o.k, o.v), e.map(|e| (e.kuid, e.vuid)))); } }
            // C05 does not say in which order Debug prints (only that formatting does not change the order): the output must
            // show exactly the entries held; whether it lists them in recency order is recorded, not judged
            Op::Debug => { if let Some(d) = &o.debug { let parsed = parse_debug(d); let walk: Vec<(u32, u64, u64)> = pre.ents.iter().map(|e| (e.id, e.kuid, e.vuid)).collect();
                if parsed == Some(walk.clone()) { st.count("debug_in_recency_order"); }
                let mut a = parsed.clone().unwrap_or_default(); a.sort_unstable(); let mut b = walk.clone(); b.sort_unstable();
                if parsed.is_none() || a != b { v(out, "C04", "debug-contents", format!("Debug output {} does not show exactly the entries held {:?}", d, walk)); }
                st.count("debug_compared"); } }
            _ => {}
        }
        if sp.promoted.is_some() { st.countf(format_args!("promote_{}_pos{}", op.kind(), pc)); }
        if post.table_at != pre.table_at && pre.len >= 10 { st.count("order_checked_after_realloc_len10"); }
    }
    // address identity of returned references (C07: the traversed entry is the very entry a lookup finds)
    if o.vaddr != 0 { let e = post.ents.iter().find(|e| Some(e.vuid) == o.v); if e.map(|e| e.vaddr) != Some(o.vaddr) || (o.kaddr != 0 && e.map(|e| e.kaddr) != Some(o.kaddr)) { v(out, "C07", "ref-identity", format!("{} returned a reference to {:#x}/{:#x}, the list holds that entry at {:?}", op.to_text(), o.kaddr, o.vaddr, e.map(|e| (e.kaddr, e.vaddr)))); } }

    // ------------------------------------------------------------ C10
    if let Op::Insert { id, kh, vh } | Op::TryInsert { id, kh, vh } = op {
        let size = *kh as u128 + *vh as u128 + base as u128;
        let max = pre.max as u128;
        let free = max.saturating_sub(pre.cur as u128);
        let occupied = pre.find(*id).is_some();
        let is_try = matches!(op, Op::TryInsert { .. });
        let want = if size > max { "err_too_large" } else if !is_try { if occupied { "ok_some" } else { "ok_none" } } else if size > free { "err_would_eject" } else if occupied { "err_occupied" } else { "ok" };
        let conds = (size > max) as u64 | ((size > free) as u64) << 1 | (occupied as u64) << 2;
        st.eval("C10", crate::rng::mix(&[is_try as u64, conds, (size == free) as u64 | ((size == free + 1) as u64) << 1 | ((size == max) as u64) << 2 | ((size == max + 1) as u64) << 3, len_class(pre.len), (pre.cur == pre.max) as u64]));
        st.countf(format_args!("c10_{}_{}", if is_try { "try" } else { "ins" }, want));
        if conds.count_ones() >= 2 { st.count("c10_several_conditions"); }
        if size == free { st.count("c10_size_eq_free"); } if size == free + 1 { st.count("c10_size_eq_free_plus_1"); }
        if size == max { st.count("c10_size_eq_max"); } if size == max + 1 { st.count("c10_size_eq_max_plus_1"); }
        if o.tag != want { v(out, "C10", "classification", format!("{}: outcome {}, expected {} (entry_size {}, max_size {}, current_size {}, key present {})", op.to_text(), o.tag, want, size, pre.max, pre.cur, occupied)); }
        if o.tag.starts_with("err_") {
            if (o.k, o.v) != (o.in_k, o.in_v) { v(out, "C10", "pair", format!("{}: the error returned pair {:?}, passed in {:?}", op.to_text(), (o.k, o.v), (o.in_k, o.in_v))); }
            if !o.accessors_ok { v(out, "C10", "accessors", format!("{}: error accessors disagree with the error's fields", op.to_text())); }
            let figures_ok = match o.tag { "err_too_large" => o.n[0] as u128 == size && o.n[1] == pre.max, "err_would_eject" => o.n[0] as u128 == size && o.n[1] as u128 == free, _ => true };
            if !figures_ok { v(out, "C10", "figures", format!("{}: error {} reports {:?}; entry_size {}, max_size {}, free {}", op.to_text(), o.tag, o.n, size, pre.max, free)); }
            if post.logical() != pre.logical() || post.cur != pre.cur || post.max != pre.max || post.len != pre.len {
                v(out, "C10", "not-atomic", format!("{} failed with {} but changed the cache: before {:?} cur {}, after {:?} cur {}", op.to_text(), o.tag, pre.logical(), pre.cur, post.logical(), post.cur));
            }
        } else if is_try && o.tag == "ok" {
            if !dep.is_empty() { v(out, "C10", "fit-evicted", format!("{}: entry of size {} fit the free space {} but {:?} were evicted", op.to_text(), size, free, dep)); }
        } else if !is_try && size <= free && !occupied && !dep.is_empty() {
            v(out, "C10", "fit-evicted", format!("{}: entry of size {} fit the free space {} but {:?} were evicted", op.to_text(), size, free, dep));
        }
    }

    // ------------------------------------------------------------ C11
    if let Op::Mutate { id, vh, .. } = op {
        match pre.find(*id) {
            None => {
                st.eval("C11", crate::rng::mix(&[0, len_class(pre.len)]));
                if o.closure_ran { v(out, "C11", "ran-absent", format!("{}: closure was called for an absent key", op.to_text())); }
                if o.tag != "ok_none" { v(out, "C11", "ret-absent", format!("{}: returned {} for an absent key", op.to_text(), o.tag)); }
                if post.logical() != pre.logical() || post.cur != pre.cur { v(out, "C11", "absent-changed", format!("{}: absent key but the cache changed", op.to_text())); }
            }
            Some(e) => {
                let new_size = e.kheap as u128 + *vh as u128 + base as u128;
                let old_size = e.rec as u128;
                let max = pre.max as u128;
                let class = if new_size > max { 4 } else if new_size > old_size { if sp.evict_n > 0 { 3 } else { 2 } } else if new_size == old_size { 1 } else { 0 };
                st.eval("C11", crate::rng::mix(&[1, class, pc, n_class(sp.evict_n), sp.exact_fit as u64, len_class(pre.len)]));
                st.countf(format_args!("c11_class{}_pos{}", class, pc));
                if !o.closure_ran { v(out, "C11", "not-run", format!("{}: closure not called for a present key", op.to_text())); }
                if o.closure_saw != Some((e.vuid, e.vheap, e.stamp)) { v(out, "C11", "saw", format!("{}: closure saw {:?}, stored value is {:?}", op.to_text(), o.closure_saw, (e.vuid, e.vheap, e.stamp))); }
                if new_size > max {
                    if o.tag != "err_too_large" { v(out, "C11", "classification", format!("{}: outcome {}, but the grown entry ({}) exceeds max_size {}", op.to_text(), o.tag, new_size, pre.max)); }
                    else {
                        if (o.k, o.v) != (Some(e.kuid), Some(e.vuid)) { v(out, "C11", "err-pair", format!("{}: error returned {:?}, stored pair was {:?}", op.to_text(), (o.k, o.v), (e.kuid, e.vuid))); }
                        if o.ret_v_stamp != o.token_in || o.ret_v_heap != *vh { v(out, "C11", "err-unmutated", format!("{}: the returned value does not carry the mutation", op.to_text())); }
                        if o.n[0] as u128 != old_size || o.n[1] as u128 != new_size || o.n[2] != pre.max { v(out, "C11", "err-figures", format!("{}: error reports old/new/max {:?}, expected {}/{}/{}", op.to_text(), o.n, old_size, new_size, pre.max)); }
                    }
                    let want: Vec<_> = pre.logical().into_iter().filter(|x| x.0 != *id).collect();
                    if post.logical() != want { v(out, "C11", "err-others", format!("{}: overflowing mutate must remove only its own entry; before {:?} after {:?}", op.to_text(), pre_ids, post_ids)); }
                } else {
                    if o.tag != "ok_some" { v(out, "C11", "classification", format!("{}: outcome {}, but the new entry size {} fits max_size {}", op.to_text(), o.tag, new_size, pre.max)); }
                    if o.token_out != Some(o.token_in) { v(out, "C11", "result", format!("{}: closure result not forwarded", op.to_text())); }
                    match post.ents.last() {
                        Some(l) if l.id == *id => {
                            if l.rec as u128 != new_size { v(out, "C11", "accounted-size", format!("{}: entry accounted with {}, new entry size is {}", op.to_text(), l.rec, new_size)); }
                            if l.vheap != *vh || l.stamp != o.token_in || l.vuid != e.vuid || l.kuid != e.kuid { v(out, "C11", "stored", format!("{}: stored value does not carry the mutation", op.to_text())); }
                        }
                        _ => v(out, "C11", "not-mru", format!("{}: mutated entry is not most-recently-used afterwards (order {:?})", op.to_text(), post_ids)),
                    }
                    let depset: std::collections::HashSet<u32> = sp.dep.iter().cloned().collect();
                    let want: Vec<u32> = pre_ids.iter().filter(|i| **i != *id && !depset.contains(i)).cloned().chain(std::iter::once(*id)).collect();
                    if post_ids != want { v(out, "C11", "evictions", format!("{}: afterwards {:?}, expected {:?} (evict only as far as needed)", op.to_text(), post_ids, want)); }
                    for x in &post.ents { if x.id != *id { if let Some(p) = pre.find(x.id) { if (p.rec, p.vheap, p.vuid) != (x.rec, x.vheap, x.vuid) { v(out, "C11", "others-touched", format!("{}: entry {} changed", op.to_text(), x.id)); } } } }
                }
            }
        }
    }

    // ------------------------------------------------------------ C12 (iterate events inside histories)
    if let Op::Iterate { kind, calls, forget, .. } = op { check_iter(ev, *kind, calls, *forget, Some(post), st, out); }

    // ------------------------------------------------------------ C13
    {
        let transparent = |out: &mut Vec<Viol>| {
            if post.logical() != pre.logical() || post.cur != pre.cur || post.max != pre.max || post.len != pre.len {
                v(out, "C13", "not-transparent", format!("{} changed contents/order/sizes: before {:?} after {:?}", op.to_text(), pre.logical(), post.logical()));
            }
        };
        match op {
            Op::Reserve { n } | Op::TryReserve { n } | Op::TryReserveFail { n, .. } => {
                let ok = o.tag == "ok" || matches!(op, Op::Reserve { .. });
                st.eval("C13", crate::rng::mix(&[kind, (post.table_at != pre.table_at) as u64, len_class(pre.len), (*n == 0) as u64 | ((*n > pre.cap) as u64) << 1, ok as u64, o.alloc_failed]));
                transparent(out);
                if ok {
                    if (post.cap as u128) < pre.len as u128 + *n as u128 { v(out, "C13", "reserve-bound", format!("{}: capacity {} < len {} + additional {}", op.to_text(), post.cap, pre.len, n)); }
                } else {
                    st.countf(format_args!("c13_try_reserve_{}", o.tag));
                    if post.fingerprint != pre.fingerprint { v(out, "C13", "failed-reserve-changed", format!("{} failed with {} but the cache is not exactly as it was", op.to_text(), o.tag)); }
                }
                if o.alloc_failed > 0 { st.count("c13_alloc_failures_injected"); if o.tag == "ok" { st.count("c13_alloc_failure_survived"); } }
            }
            Op::ShrinkTo { .. } | Op::ShrinkFit => {
                let m = if let Op::ShrinkTo { n } = op { *n } else { 0 };
                st.eval("C13", crate::rng::mix(&[kind, (post.table_at != pre.table_at) as u64, len_class(pre.len), (m > pre.cap) as u64 | ((m < pre.len) as u64) << 1, (post.cap < pre.cap) as u64, has_tombstones(pre) as u64]));
                transparent(out);
                if post.cap > pre.cap {
                    let sig = if post.buckets <= pre.buckets { "shrink-raises-capacity-tombstones" } else { "shrink-raises-capacity" };
                    v(out, "C13", sig, format!("{}: capacity() rose from {} to {} (len {}, buckets {} -> {})", op.to_text(), pre.cap, post.cap, pre.len, pre.buckets, post.buckets));
                }
                let lo = pre.len.max(m).min(pre.cap);
                if post.cap < lo { v(out, "C13", "shrink-lower-bound", format!("{}: capacity {} < max(len, min_capacity) = {}", op.to_text(), post.cap, pre.len.max(m))); }
                if post.cap < pre.cap { st.count("c13_shrunk"); }
                if post.buckets == pre.buckets && post.table_at != pre.table_at { st.count("c13_shrink_same_buckets_rebuild"); }
            }
            Op::Insert { .. } | Op::TryInsert { .. } => {
                if post.buckets != pre.buckets || post.table_at != pre.table_at {
                    st.eval("C13", crate::rng::mix(&[kind, 7, len_class(pre.len), n_class(dep.len())]));
                    st.count("c13_auto_growth");
                    let len_at_growth = post.len.saturating_sub(1);
                    let want = (ev.fresh_cap)((2 * len_at_growth).max(1));
                    // automatic growth must be as transparent as the explicit capacity operations: everything that was not
                    // replaced or evicted is still there with the same identity and recorded size, in the same relative order
                    let tid = insert_target.unwrap_or(u32::MAX);
                    let want_rest: Vec<_> = pre.logical().into_iter().filter(|x| x.0 != tid && post.has(x.0)).collect();
                    let got_rest: Vec<_> = post.logical().into_iter().filter(|x| x.0 != tid).collect();
                    if want_rest != got_rest { v(out, "C13", "growth-not-transparent", format!("{}: automatic growth changed the other entries: before {:?}, after {:?}", op.to_text(), want_rest.iter().map(|x| (x.0, x.3)).collect::<Vec<_>>(), got_rest.iter().map(|x| (x.0, x.3)).collect::<Vec<_>>())); }
                    if post.cap != want { v(out, "C13", "growth-target", format!("{}: automatic growth took capacity from {} to {} with {} entries held; the smallest table for twice that holds {}", op.to_text(), pre.cap, post.cap, len_at_growth, want)); }
                }
            }
            _ => {}
        }
    }

    // ------------------------------------------------------------ C14 (clone equality; independence is checked by the engine)
    if let (Op::CloneCache, Some(cl)) = (op, ev.clone) {
        st.eval("C14", crate::rng::mix(&[len_class(pre.len), ev.hk as u64, has_tombstones(pre) as u64, n_class(pre.len % 7)]));
        let a: Vec<_> = pre.ents.iter().map(|e| (e.id, e.rec, e.kheap, e.vheap, e.stamp)).collect();
        let b: Vec<_> = cl.ents.iter().map(|e| (e.id, e.rec, e.kheap, e.vheap, e.stamp)).collect();
        if !cl.g1.is_empty() || !cl.g2.is_empty() || !cl.g3.is_empty() {
            v(out, "C14", "clone-structure", format!("clone is not coherent: {:?} {:?} {:?}", cl.g1, cl.g2, cl.g3));
            for m in &cl.g1 { v(out, "C07", "g1", format!("clone: {}", m)); }
            for m in &cl.g2 { v(out, "C07", "g2", format!("clone: {}", m)); v(out, "C05", "g2", format!("clone: {}", m)); }
            // the clone is a cache in its own right: a lookup that disagrees with what it holds is a map failure (C04)
            for m in &cl.g3 { v(out, "C07", "g3", format!("clone: {}", m)); v(out, "C04", "g3", format!("in the cache returned by clone(): {}", m)); }
        }
        if a != b { v(out, "C14", "clone-contents", format!("clone holds {:?}, source {:?}", b, a)); }
        if cl.cur != pre.cur || cl.max != pre.max || cl.len != pre.len { v(out, "C14", "clone-scalars", format!("clone cur/max/len = {}/{}/{}, source {}/{}/{}", cl.cur, cl.max, cl.len, pre.cur, pre.max, pre.len)); }
        if cl.cap < pre.cap { v(out, "C14", "clone-capacity", format!("clone capacity {} < source capacity {}", cl.cap, pre.cap)); }
        if post.fingerprint != pre.fingerprint || post != pre { v(out, "C14", "clone-altered-source", "clone() altered the source".to_string()); }
        let src_uids: BTreeSet<u64> = pre.ents.iter().flat_map(|e| [e.kuid, e.vuid]).collect();
        let src_addrs: BTreeSet<usize> = pre.ents.iter().flat_map(|e| [e.node, e.kaddr, e.vaddr]).collect();
        if cl.ents.iter().any(|e| src_uids.contains(&e.kuid) || src_uids.contains(&e.vuid)) { v(out, "C14", "clone-shares", "clone shares key/value objects with the source".to_string()); }
        if cl.ents.iter().any(|e| src_addrs.contains(&e.node) || src_addrs.contains(&e.kaddr)) || cl.seal == pre.seal { v(out, "C14", "clone-shares-memory", "clone shares nodes with the source".to_string()); }
        if cl.sum_rec() != cl.cur as u128 { v(out, "C14", "clone-accounting", format!("clone current_size {} != its recorded sizes {}", cl.cur, cl.sum_rec())); }
    }

    // ------------------------------------------------------------ C15
    if let Op::Retain { reject } = op {
        let rejected: Vec<&Ent> = pre.ents.iter().filter(|e| reject.contains(&e.id)).collect();
        let shape = if rejected.is_empty() { 0 } else if rejected.len() == pre.len { 1 } else { 2 + (reject.contains(&pre.ents[0].id) as u64) + 2 * (reject.contains(&pre.ents[pre.len - 1].id) as u64) };
        st.eval("C15", crate::rng::mix(&[len_class(pre.len), shape, n_class(rejected.len()), ev.hk as u64]));
        let want_log: Vec<_> = pre.ents.iter().map(|e| (e.id, e.kuid, e.vuid, e.kaddr, e.vaddr)).collect();
        if o.pred_log != want_log { v(out, "C15", "visit-log", format!("{}: predicate was called with {:?}, the entries LRU->MRU are {:?}", op.to_text(), o.pred_log.iter().map(|x| x.0).collect::<Vec<_>>(), pre_ids)); }
        let want_post: Vec<_> = pre.logical().into_iter().filter(|x| !reject.contains(&x.0)).collect();
        if post.logical() != want_post { v(out, "C15", "survivors", format!("{}: afterwards {:?}, expected {:?}", op.to_text(), post_ids, want_post.iter().map(|x| x.0).collect::<Vec<_>>())); }
        let rej_sum: u128 = rejected.iter().map(|e| e.rec as u128).sum();
        if post.len != pre.len - rejected.len() || post.cur as u128 + rej_sum != pre.cur as u128 { v(out, "C15", "len-size", format!("{}: len {} -> {}, current_size {} -> {}, rejected {} entries of total size {}", op.to_text(), pre.len, post.len, pre.cur, post.cur, rejected.len(), rej_sum)); }
        let mut want_drops: Vec<u64> = rejected.iter().flat_map(|e| [e.kuid, e.vuid]).collect(); want_drops.sort_unstable();
        let mut got_drops = o.drops.clone(); got_drops.sort_unstable();
        if got_drops != want_drops { v(out, "C15", "drops", format!("{}: dropped {:?}, the rejected entries' objects are {:?}", op.to_text(), got_drops, want_drops)); }
    }

    // ------------------------------------------------------------ C20
    {
        let h = ev.ticks[C_HASH];
        let rebuilt = post.table_at != pre.table_at || post.buckets != pre.buckets;
        // "an insertion that grows the table": the table had no room left for one more entry (hashbrown: capacity() ==
        // len() means growth_left == 0; departures inside the operation can only add room), or it ends up with more buckets
        let grows = pre.cap == pre.len || post.buckets > pre.buckets;
        let may_rebuild = matches!(op, Op::Reserve { .. } | Op::TryReserve { .. } | Op::TryReserveFail { .. } | Op::ShrinkTo { .. } | Op::ShrinkFit) || (matches!(op, Op::Insert { .. } | Op::TryInsert { .. }) && grows);
        let mut bound = 2 + dep.len() as u64;
        if matches!(op, Op::CloneCache) { bound += pre.len as u64; }
        else if rebuilt && may_rebuild { bound += pre.len.max(post.len) as u64; }
        let zero = matches!(op, Op::Iterate { .. } | Op::Clear | Op::PeekLru | Op::PeekMru);
        st.eval("C20", crate::rng::mix(&[kind, len_class(pre.len), n_class(dep.len()), rebuilt as u64, h.min(3)]));
        st.maxf(format_args!("c20_max_hashes_minus_departures_{}{}", op.kind(), if rebuilt && (may_rebuild) || matches!(op, Op::CloneCache) { "_rebuild" } else { "" }), h.saturating_sub(dep.len() as u64).saturating_sub(if rebuilt && may_rebuild || matches!(op, Op::CloneCache) { pre.len.max(post.len) as u64 } else { 0 }));
        if zero && h != 0 { v(out, "C20", "hash-free", format!("{} computed {} key hashes; it must hash nothing", op.to_text(), h)); }
        else if h > bound { v(out, "C20", "bound", format!("{} computed {} key hashes with {} entries held, {} leaving, table rebuilt: {}; bound {}", op.to_text(), h, pre.len, dep.len(), rebuilt, bound)); }
        if rebuilt && may_rebuild { st.count("c20_rebuilds"); }
        if rebuilt && matches!(op, Op::Insert { .. } | Op::TryInsert { .. }) && post.buckets <= pre.buckets { st.count("c20_insert_rebuilds_of_tombstone_saturated_table"); }
        if !dep.is_empty() { st.count("c20_with_departures"); }
    }
    // ------------------------------------------------------------ C19 facet inside histories: &self operations leave the fingerprint alone
    if matches!(op, Op::Peek { .. } | Op::PeekEntry { .. } | Op::PeekLru | Op::PeekMru | Op::Contains { .. } | Op::Scalars | Op::Debug | Op::CloneCache) || matches!(op, Op::Iterate { kind, .. } if *kind != IT_DRAIN) {
        st.eval("C19", crate::rng::mix(&[kind, pc, len_class(pre.len), ev.hk as u64]));
        if post.fingerprint != pre.fingerprint || post != pre { v(out, "C19", "state-changed", format!("{} (a shared-reference operation) changed the cache's state or link structure", op.to_text())); }
    }
}

/// C12 facet for one iterator session.
pub fn check_iter(ev: &Event, kind: u8, calls: &[bool], forget: bool, post: Option<&Obs>, st: &mut Stats, out: &mut Vec<Viol>) {
    let pre = ev.pre; let o = ev.out; let op = ev.op;
    let n = pre.ents.len();
    let fused = kind <= IT_DRAIN;
    let mut f = 0usize; let mut b = n; // remaining = [f, b)
    let mut exhausted_seen = false;
    let backs = calls.iter().filter(|x| **x).count();
    st.eval("C12", crate::rng::mix(&[kind as u64, n.min(9) as u64, calls.len().min(12) as u64, backs.min(12) as u64, forget as u64, calls.iter().take(10).enumerate().map(|(i, c)| (*c as u64) << i).sum::<u64>()]));
    if calls.len() > n { st.count("c12_past_exhaustion"); }
    if calls.len() < n { st.count("c12_dropped_after_prefix"); }
    if o.yields.len() != calls.len() { v(out, "C12", "calls", format!("{}: {} results for {} calls", op.to_text(), o.yields.len(), calls.len())); return; }
    for (i, back) in calls.iter().enumerate() {
        let y = &o.yields[i];
        if f < b {
            let e = if *back { b -= 1; &pre.ents[b] } else { f += 1; &pre.ents[f - 1] };
            let k_ok = match kind { IT_VALUES | IT_INTO_VALUES => y.k.is_none(), _ => y.k == Some(e.kuid) };
            let v_ok = match kind { IT_KEYS | IT_INTO_KEYS => y.v.is_none(), _ => y.v == Some(e.vuid) };
            let addr_ok = kind > IT_VALUES || ((y.kaddr == 0 || y.kaddr == e.kaddr) && (y.vaddr == 0 || y.vaddr == e.vaddr));
            if y.none || !k_ok || !v_ok || !addr_ok {
                v(out, "C12", "yield", format!("{}: call #{} ({}) yielded {:?}, expected entry {} ({}, {}) of LRU->MRU {:?}", op.to_text(), i, if *back { "next_back" } else { "next" }, (y.none, y.k, y.v), e.id, e.kuid, e.vuid, pre.ids()));
                return;
            }
        } else {
            if !y.none && (fused || !exhausted_seen) {
                v(out, "C12", "past-end", format!("{}: call #{} yielded {:?} after all {} entries had been yielded", op.to_text(), i, (y.k, y.v), n));
                return;
            }
            exhausted_seen = true;
        }
    }
    // ---- an iterator that can be formatted must not show (= read) what it has already handed out
    if let Some(text) = &o.iter_debug_text {
        st.count("c12_iterators_formatted");
        let mut shown: BTreeSet<u64> = BTreeSet::new();
        let b = text.as_bytes();
        let mut i = 0;
        while i < b.len() { if (b[i] == b'u' || b[i] == b'V') && i + 1 < b.len() && b[i + 1].is_ascii_digit() { let mut j = i + 1; let mut n = 0u64; while j < b.len() && b[j].is_ascii_digit() { n = n.wrapping_mul(10).wrapping_add((b[j] - b'0') as u64); j += 1; } shown.insert(n); i = j; } else { i += 1; } }
        let handed: Vec<u64> = o.yields.iter().flat_map(|y| [y.k, y.v]).flatten().filter(|u| shown.contains(u)).collect();
        if !handed.is_empty() { v(out, "C12", "debug-shows-yielded", format!("{}: the iterator's Debug output lists objects {:?} that it had already handed out", op.to_text(), handed)); v(out, "C07", "debug-shows-yielded", format!("{}: formatting the iterator read entries that had been moved out ({:?})", op.to_text(), handed)); }
    }
    // ---- the finishing call: Iterator's provided methods must agree with what next/next_back would still yield
    let fin = match op { Op::Iterate { fin, .. } | Op::Into { fin, .. } => *fin, _ => 0 };
    if fin == 8 { st.count("c12_consumer_panicked_holding_iterator"); }
    if fin != 0 && fin != 8 && o.fin_ran && !(exhausted_seen && !fused) {
        let rem = &pre.ents[f..b];
        let same = |y: &Yield, e: &Ent| -> bool {
            let k_ok = match kind { IT_VALUES | IT_INTO_VALUES => y.k.is_none(), _ => y.k == Some(e.kuid) };
            let v_ok = match kind { IT_KEYS | IT_INTO_KEYS => y.v.is_none(), _ => y.v == Some(e.vuid) };
            !y.none && k_ok && v_ok
        };
        let items_match = |want: Vec<&Ent>| -> bool { o.fin_items.len() == want.len() && o.fin_items.iter().zip(want.iter()).all(|(y, e)| same(y, e)) };
        let ok = match fin {
            1 => items_match(rem.last().into_iter().collect()),
            2 => o.fin_count == rem.len(),
            3 | 4 => {
                // nth(1) / nth_back(1) consume two entries (all of them when fewer remain); then one more from the same
                // end and one from the other end. What comes after a None is only specified for the fused iterators.
                let seq: Vec<&Ent> = if fin == 3 { rem.iter().collect() } else { rem.iter().rev().collect() };
                let want_a = seq.get(1).copied();
                let rest: &[&Ent] = if seq.len() >= 2 { &seq[2..] } else { &[] };
                let want_b = rest.first().copied();
                let rest2: &[&Ent] = if rest.is_empty() { &[] } else { &rest[1..] };
                let want_c = rest2.last().copied();
                let slot = |y: &Yield, w: Option<&Ent>| -> bool { match w { Some(e) => same(y, e), None => y.none } };
                let ys = &o.fin_items;
                ys.len() == 3 && slot(&ys[0], want_a) && (!(fused || want_a.is_some()) || (slot(&ys[1], want_b) && (!(fused || want_b.is_some()) || slot(&ys[2], want_c))))
            }
            5 => o.fin_hint.0 <= rem.len() && o.fin_hint.1.map_or(true, |u| u >= rem.len()),
            6 | 9 | 12 => items_match(rem.iter().collect()),
            10 | 11 | 13 | 14 | 15 => o.fin_count == rem.len() && o.fin_hint == (0, Some(0)),
            _ => items_match(rem.iter().rev().collect()),
        };
        st.countf(format_args!("c12_finisher_{}", FIN_NAMES[fin as usize]));
        if rem.is_empty() { st.count("c12_finisher_on_exhausted"); }
        if !ok { v(out, "C12", "finisher", format!("{}: after the calls {} entries remain ({:?}); {}() produced {:?} / count {} / size_hint {:?}", op.to_text(), rem.len(), rem.iter().map(|e| e.id).collect::<Vec<_>>(), FIN_NAMES[fin as usize], o.fin_items.iter().map(|y| (y.k, y.v)).collect::<Vec<_>>(), o.fin_count, o.fin_hint)); return; }
    }
    match kind {
        IT_ITER | IT_KEYS | IT_VALUES => {
            if let Some(post) = post { if post.fingerprint != pre.fingerprint || post != pre { v(out, "C12", "borrowing-changed", format!("{} changed the cache", op.to_text())); } }
        }
        IT_DRAIN if !forget => {
            if let Some(post) = post {
                if post.len != 0 || post.cur != 0 || !post.empty || !post.ents.is_empty() || post.max != pre.max {
                    v(out, "C12", "drain-aftermath", format!("{}: after the drain was dropped len {}, current_size {}, max_size {} (was {})", op.to_text(), post.len, post.cur, post.max, pre.max));
                }
            }
            // ledger: everything not yielded was dropped by the drain, everything yielded is held by the harness
            let yielded: BTreeSet<u64> = o.yields.iter().chain(o.fin_items.iter()).flat_map(|y| [y.k, y.v]).flatten().collect();
            for e in &pre.ents { for u in [e.kuid, e.vuid] { let st8 = ledger_state(u); if yielded.contains(&u) { if st8 != 1 { v(out, "C12", "yielded-dropped", format!("{}: yielded object {} is not alive", op.to_text(), u)); } } else if st8 != 2 { v(out, "C12", "unconsumed-not-dropped", format!("{}: unconsumed object {} was dropped {} times", op.to_text(), u, st8 as i32 - 1)); } } }
        }
        _ => {}
    }
}

/// Events that consumed the cache (into_iter / into_keys / into_values).
fn check_consumed(ev: &Event, st: &mut Stats, out: &mut Vec<Viol>) {
    if let Op::Into { kind, calls, forget, .. } = ev.op {
        check_iter(ev, *kind, calls, *forget, None, st, out);
        let o = ev.out;
        if !*forget {
            // owning iterators drop whatever was not consumed; yielded objects are alive in the harness' hands.
            // into_keys / into_values drop the other half of each yielded pair themselves.
            let yielded: BTreeSet<u64> = o.yields.iter().chain(o.fin_items.iter()).flat_map(|y| [y.k, y.v]).flatten().collect();
            for e in &ev.pre.ents { for u in [e.kuid, e.vuid] {
                let s8 = ledger_state(u);
                if yielded.contains(&u) { if s8 != 1 { v(out, "C12", "yielded-dropped", format!("{}: yielded object {} is not alive", ev.op.to_text(), u)); } }
                else if s8 != 2 { v(out, "C12", "unconsumed-not-dropped", format!("{}: object {} was dropped {} times", ev.op.to_text(), u, s8 as i32 - 1)); v(out, "C06", "unconsumed-not-dropped", format!("{}: object {} was dropped {} times", ev.op.to_text(), u, s8 as i32 - 1)); }
            } }
        }
        let h = ev.ticks[C_HASH];
        st.eval("C20", crate::rng::mix(&[ev.op.kind_index(), len_class(ev.pre.len), 9]));
        if h != 0 { v(out, "C20", "hash-free", format!("{} computed {} key hashes; traversals hash nothing", ev.op.to_text(), h)); }
    }
}

/// Parse the Debug rendering `{K<id>u<uid>: V<uid>, ...}`.
pub fn parse_debug(s: &str) -> Option<Vec<(u32, u64, u64)>> {
    let s = s.trim();
    let inner = s.strip_prefix('{')?.strip_suffix('}')?;
    let mut out = Vec::new();
    if inner.trim().is_empty() { return Some(out); }
    for part in inner.split(", ") {
        let (k, val) = part.split_once(": ")?;
        let k = k.strip_prefix('K')?;
        let (id, uid) = k.split_once('u')?;
        let vu = val.strip_prefix('V')?;
        out.push((id.parse().ok()?, uid.parse().ok()?, vu.parse().ok()?));
    }
    Some(out)
}
