//! C04 with lookup keys that live *inside* the cache's own keys.
//!
//! "Lookups through any borrowed form of the key": a `&str` handed to a lookup may be a slice of the very buffer of a key
//! the cache holds (`&path[..path.rfind('/')]`, `Path::parent()`, a prefix of an `Rc<str>` the caller shares with the cache).
//! Such a key has the address of a stored key but is a different key. With `Rc<str>` keys the aliasing forms reach the
//! `&mut self` operations too. Every result is compared with a sequential model (ordered vector of texts).

use crate::engine::RunOut;
use crate::gen::HistCfg;
use crate::rng::{mix, Rng};
use crate::types::TH;
use lru_mem::{HeapSize, LruCache};
use std::borrow::Borrow;
use std::hash::{Hash, Hasher};
use std::rc::Rc;

#[derive(Clone, Debug)]
pub struct RcKey(pub Rc<str>);
impl Borrow<str> for RcKey { fn borrow(&self) -> &str { &self.0 } }
impl Hash for RcKey { fn hash<H: Hasher>(&self, h: &mut H) { (*self.0).hash(h) } }
impl PartialEq for RcKey { fn eq(&self, o: &RcKey) -> bool { *self.0 == *o.0 } }
impl Eq for RcKey {}
impl HeapSize for RcKey { fn heap_size(&self) -> usize { self.0.len() + 16 } }

const FAMILIES: [&str; 5] = ["usr/local/lib/x", "usr/local/bin", "aaaaaaaaaaaa", "k", "key-0123456789/abc"];

fn universe() -> Vec<String> {
    let mut u = vec![String::new()];
    for f in FAMILIES { for n in 1..=f.len() { u.push(f[..n].to_string()); } for i in 1..f.len() { u.push(f[i..].to_string()); } }
    u.sort(); u.dedup();
    u
}

fn fail(out: &mut RunOut, sig: &str, msg: String, cfg: &HistCfg, log: &[String]) {
    *out.viol_counts.entry("C04").or_insert(0) += 1;
    if out.failures.iter().filter(|f| f.sig == sig).count() < 3 {
        let tail: Vec<String> = log.iter().rev().take(40).rev().cloned().collect();
        out.failures.push(crate::engine::Failure { prop: "C04", sig: sig.to_string(), msg, cfg: cfg.clone(), ops: vec![tail.join("; ")], at: 0, inject: None, rerun: true });
    }
}

pub fn run_aliaskeys(seed: u64, budget: u64, out: &mut RunOut) {
    let uni = universe();
    let mut rng = Rng::new(seed);
    let mut token = 0u64;
    while out.stats.events < budget {
        let hk = crate::types::TH_KINDS[rng.usize_below(crate::types::TH_KINDS.len())];
        let cap0 = [None, Some(0), Some(3), Some(64)][rng.usize_below(4)];
        let cfg = HistCfg { hk, cap0, max: usize::MAX >> 1, universe: uni.len() as u32, events: 0, extreme: false };
        let th = TH(hk, crate::types::next_hasher_seed());
        let mut c: LruCache<RcKey, u64, TH> = match cap0 { None => LruCache::with_hasher(cfg.max, th), Some(n) => LruCache::with_capacity_and_hasher(cfg.max, n, th) };
        let mut model: Vec<(String, u64)> = Vec::new();   // LRU -> MRU
        let mut log: Vec<String> = Vec::new();
        let steps = rng.range(20, 300);
        for _ in 0..steps {
            out.stats.events += 1;
            // ---- the lookup key: a text, and the form in which it is handed over
            let form = rng.below(4); // 0 fresh &str, 1 prefix of a stored key's buffer, 2 suffix of a stored key's buffer, 3 the stored key's whole buffer
            let holder: Option<Rc<str>> = if form == 0 || model.is_empty() { None } else { let t = &model[rng.usize_below(model.len())].0; c.peek_entry(t.as_str()).map(|(k, _)| k.0.clone()) };
            let fresh: String;
            let (q, form): (&str, u64) = match &holder {
                Some(rc) => { let l = rc.len(); match form { 1 => (&rc[..rng.usize_below(l + 1)], 1), 2 => (&rc[rng.usize_below(l + 1)..], 2), _ => (&rc[..], 3) } }
                None => { fresh = uni[rng.usize_below(uni.len())].clone(); (fresh.as_str(), 0) }
            };
            let pos = model.iter().position(|(t, _)| t == q);
            if form == 1 && pos.is_none() { out.stats.count("c04_alias_prefix_of_stored_key_that_is_absent"); }
            if form != 0 { out.stats.count("c04_alias_lookups"); }
            let kind = rng.below(14);
            out.stats.eval("C04", mix(&[4040, kind, form, pos.is_some() as u64, hk as u64]));
            token += 1;
            let name;
            let mut bad: Option<String> = None;
            macro_rules! expect { ($got:expr, $want:expr) => {{ let g = $got; let w = $want; if g != w { bad = Some(format!("returned {:?}, a sequential map returns {:?}", g, w)); } }}; }
            match kind {
                0 | 1 => { name = "insert"; let r = c.insert(RcKey(Rc::from(q)), token).ok().flatten(); let w = pos.map(|p| model.remove(p).1); model.push((q.to_string(), token)); expect!(r, w); }
                2 => { name = "contains"; expect!(c.contains(q), pos.is_some()); }
                3 => { name = "peek"; expect!(c.peek(q).copied(), pos.map(|p| model[p].1)); }
                4 => { name = "peek_entry"; expect!(c.peek_entry(q).map(|(k, v)| (k.0.to_string(), *v)), pos.map(|p| model[p].clone())); }
                5 => { name = "get"; let r = c.get(q).copied(); let w = pos.map(|p| { let e = model.remove(p); model.push(e.clone()); e.1 }); expect!(r, w); }
                6 => { name = "get_entry"; let r = c.get_entry(q).map(|(k, v)| (k.0.to_string(), *v)); let w = pos.map(|p| { let e = model.remove(p); model.push(e.clone()); e }); expect!(r, w); }
                7 => { name = "touch"; c.touch(q); if let Some(p) = pos { let e = model.remove(p); model.push(e); } }
                8 => { name = "remove"; let r = c.remove(q); let w = pos.map(|p| model.remove(p).1); expect!(r, w); }
                9 => { name = "remove_entry"; let r = c.remove_entry(q).map(|(k, v)| (k.0.to_string(), v)); let w = pos.map(|p| model.remove(p)); expect!(r, w); }
                10 => { name = "mutate"; let r = c.mutate(q, |v| { *v += 1; *v }).ok().flatten(); let w = pos.map(|p| { let mut e = model.remove(p); e.1 += 1; model.push(e.clone()); e.1 }); expect!(r, w); }
                11 => { name = "try_insert"; let r = c.try_insert(RcKey(Rc::from(q)), token).is_ok(); if pos.is_none() { model.push((q.to_string(), token)); } expect!(r, pos.is_none()); }
                12 => { name = "capacity-op"; match rng.below(3) { 0 => c.reserve(rng.usize_below(80)), 1 => c.shrink_to_fit(), _ => c.shrink_to(rng.usize_below(20)) } }
                _ => { name = "remove_lru/mru"; if rng.chance(1, 2) { let r = c.remove_lru().map(|(k, v)| (k.0.to_string(), v)); let w = if model.is_empty() { None } else { Some(model.remove(0)) }; expect!(r, w); } else { let r = c.remove_mru().map(|(k, v)| (k.0.to_string(), v)); let w = model.pop(); expect!(r, w); } }
            }
            log.push(format!("{} {:?} [{}]", name, q, ["fresh", "prefix-of-stored", "suffix-of-stored", "stored-buffer"][form as usize]));
            if let Some(m) = bad { fail(out, "alias-lookup", format!("{} of {:?} (handed over as {}) {}", name, q, ["a separate str", "a prefix slice of a stored key's buffer", "a suffix slice of a stored key's buffer", "the stored key's own buffer"][form as usize], m), &cfg, &log); break; }
            let got: Vec<(String, u64)> = c.iter().map(|(k, v)| (k.0.to_string(), *v)).collect();
            if got != model || c.len() != model.len() { fail(out, "alias-contents", format!("after {} of {:?} ({}): contents LRU->MRU {:?}, a sequential map holds {:?}", name, q, form, got, model), &cfg, &log); break; }
        }
        out.stats.histories += 1;
    }
}

// ------------------------------------------------------------------------------ keys whose equality is not byte equality

/// `PathBuf` keys looked up through `&Path`: "a/b", "a//b", "a/./b" and "a/b/" are one key (equal, same hash) spelled with
/// different bytes and lengths. The model is keyed by the normalised component list.
pub fn run_pathkeys(seed: u64, budget: u64, out: &mut RunOut) {
    use std::path::{Path, PathBuf};
    let bases = ["a/b", "a/b/c", "x", "usr/lib/y", "a", "a/bb", "k/l/m/n"];
    fn spell(rng: &mut Rng, base: &str) -> String {
        let parts: Vec<&str> = base.split('/').collect();
        let mut t = String::new();
        for (i, p) in parts.iter().enumerate() {
            if i > 0 { t.push_str(match rng.below(4) { 0 => "//", 1 => "/./", 2 => "///", _ => "/" }); }
            t.push_str(p);
        }
        match rng.below(4) { 0 => t.push('/'), 1 => t.push_str("/."), _ => {} }
        t
    }
    let canon = |p: &Path| -> String { p.components().map(|c| c.as_os_str().to_string_lossy().into_owned()).collect::<Vec<_>>().join("/") };
    let mut rng = Rng::new(seed ^ 0x9a7);
    let mut token = 0u64;
    let start = out.stats.events;
    while out.stats.events - start < budget {
        let hk = crate::types::TH_KINDS[rng.usize_below(crate::types::TH_KINDS.len())];
        let cfg = HistCfg { hk, cap0: None, max: usize::MAX >> 1, universe: bases.len() as u32, events: 0, extreme: false };
        let mut c: LruCache<PathBuf, u64, TH> = LruCache::with_hasher(cfg.max, TH(hk, crate::types::next_hasher_seed()));
        let mut model: Vec<(String, u64)> = Vec::new();
        let mut log: Vec<String> = Vec::new();
        for _ in 0..rng.range(20, 200) {
            out.stats.events += 1;
            token += 1;
            let bi = rng.usize_below(bases.len()); let text = spell(&mut rng, bases[bi]);
            let q: &Path = Path::new(&text);
            let key = canon(q);
            let pos = model.iter().position(|(t, _)| *t == key);
            let respelled = pos.is_some() && c.peek_entry(q).map(|(k, _)| k.as_os_str() != q.as_os_str()).unwrap_or(true);
            if respelled { out.stats.count("c04_path_lookups_with_another_spelling_of_a_stored_key"); }
            let kind = rng.below(10);
            out.stats.eval("C04", mix(&[4141, kind, pos.is_some() as u64, respelled as u64, hk as u64]));
            let mut bad: Option<String> = None;
            macro_rules! expect { ($got:expr, $want:expr) => {{ let g = $got; let w = $want; if g != w { bad = Some(format!("returned {:?}, a sequential map returns {:?}", g, w)); } }}; }
            let name = match kind {
                0 | 1 => { let r = c.insert(q.to_path_buf(), token).ok().flatten(); let w = pos.map(|p| model.remove(p).1); model.push((key.clone(), token)); expect!(r, w); "insert" }
                2 => { expect!(c.contains(q), pos.is_some()); "contains" }
                3 => { expect!(c.peek(q).copied(), pos.map(|p| model[p].1)); "peek" }
                4 => { let r = c.get(q).copied(); let w = pos.map(|p| { let e = model.remove(p); model.push(e.clone()); e.1 }); expect!(r, w); "get" }
                5 => { c.touch(q); if let Some(p) = pos { let e = model.remove(p); model.push(e); } "touch" }
                6 => { let r = c.remove(q); let w = pos.map(|p| model.remove(p).1); expect!(r, w); "remove" }
                7 => { let r = c.mutate(q, |v| { *v += 1; *v }).ok().flatten(); let w = pos.map(|p| { let mut e = model.remove(p); e.1 += 1; model.push(e.clone()); e.1 }); expect!(r, w); "mutate" }
                8 => { let r = c.try_insert(q.to_path_buf(), token).is_ok(); if pos.is_none() { model.push((key.clone(), token)); } expect!(r, pos.is_none()); "try_insert" }
                _ => { let r = c.get_entry(q).map(|(k, v)| (canon(k), *v)); let w = pos.map(|p| { let e = model.remove(p); model.push(e.clone()); e }); expect!(r, w); "get_entry" }
            };
            log.push(format!("{} {:?}", name, text));
            if let Some(m) = bad { fail(out, "path-lookup", format!("{} of the path {:?} (key {:?}) {}", name, text, key, m), &cfg, &log); break; }
            let got: Vec<(String, u64)> = c.iter().map(|(k, v)| (canon(k), *v)).collect();
            if got != model { fail(out, "path-contents", format!("after {} of {:?}: contents {:?}, a sequential map holds {:?}", name, text, got, model), &cfg, &log); break; }
        }
        out.stats.histories += 1;
    }
}
