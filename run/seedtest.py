#!/usr/bin/env python3
"""Confirm an independently written seeded break and run the registered checks against it.

  python3 run/seedtest.py <seed-dir-with-SEED/> <id> <property> [--checks C06,C12] [--modes native,...] [--tier quick]

1. confirm in a scratch worktree (outside /repo and /verif): patch applies, crate builds, the unedited suite passes
   with the patch, the demonstration passes without and fails with the patch;
2. apply the patch to /repo, run the checks, undo (`git checkout -- .`);
3. store patch.diff, the demonstration and meta.json under /verif/seeded/<id>/.
"""
import json, os, shutil, subprocess, sys, time
VERIF = os.path.dirname(os.path.dirname(os.path.abspath(__file__)))

def sh(cmd, cwd=None, env=None, timeout=3600):
    p = subprocess.run(cmd, shell=True, cwd=cwd, env=env, stdout=subprocess.PIPE, stderr=subprocess.STDOUT, text=True, timeout=timeout)
    return p.returncode, p.stdout

def main():
    src, sid, prop = sys.argv[1], sys.argv[2], sys.argv[3]
    a = sys.argv[4:]
    checks = a[a.index("--checks") + 1].split(",") if "--checks" in a else [prop]
    modes = a[a.index("--modes") + 1] if "--modes" in a else None
    tier = a[a.index("--tier") + 1] if "--tier" in a else "quick"
    seed = os.path.join(src, "SEED") if os.path.isdir(os.path.join(src, "SEED")) else src
    patch = os.path.join(seed, "patch.diff")
    demo = os.path.join(seed, "seed_demo.rs")
    assert os.path.exists(patch), patch
    meta = {"id": sid, "property": prop, "source": "independent sub-agent given only the property text and a scratch worktree", "confirmed": {}, "checks": {}}
    readme = os.path.join(seed, "README.md")
    if os.path.exists(readme):
        meta["needs_to_manifest"] = open(readme).read()[:3000]
    # ---- 1. confirmation in a scratch worktree
    wt = "/tmp/confirm_%s" % sid
    sh("git -C /repo worktree remove --force %s" % wt)
    rc, out = sh("git -C /repo worktree add -q %s HEAD" % wt)
    assert rc == 0, out
    try:
        has_demo = os.path.exists(demo)
        if has_demo:
            shutil.copy(demo, os.path.join(wt, "tests", "seed_demo.rs"))
            rc, out = sh("cargo test --offline --test seed_demo 2>&1 | tail -15", cwd=wt)
            meta["confirmed"]["demo_passes_without_change"] = ("test result: ok" in out)
            meta["confirmed"]["demo_without_tail"] = out[-600:]
        rc, out = sh("git apply %s" % patch, cwd=wt)
        meta["confirmed"]["patch_applies"] = rc == 0
        if rc != 0:
            meta["confirmed"]["apply_error"] = out[-500:]
        rc, out = sh("cargo build --offline 2>&1 | tail -3", cwd=wt)
        meta["confirmed"]["builds"] = "error" not in out
        rc, out = sh("cargo test --offline --no-fail-fast 2>&1 | grep -E '^test result|Running|FAILED|failed'", cwd=wt)
        # every target except seed_demo must be green
        lines = out.splitlines()
        bad = []
        cur = ""
        for l in lines:
            if "Running" in l or "Doc-tests" in l:
                cur = l
            if l.startswith("test result") and " 0 failed" not in l and "seed_demo" not in cur:
                bad.append(cur + " :: " + l)
        meta["confirmed"]["suite_passes_with_change"] = not bad
        meta["confirmed"]["suite_failures"] = bad[:5]
        if has_demo:
            rc, out = sh("cargo test --offline --test seed_demo 2>&1", cwd=wt)
            out = out[-2500:]
            # a demonstration that no longer compiles (compile-time properties) fails just as well
            meta["confirmed"]["demo_fails_with_change"] = rc != 0
            meta["confirmed"]["demo_with_tail"] = out[-900:]
    finally:
        sh("git -C /repo worktree remove --force %s" % wt)
        sh("rm -rf %s" % wt)
    print(json.dumps(meta["confirmed"], indent=1)[:2500])
    ok = all(meta["confirmed"].get(k) for k in ["patch_applies", "builds", "suite_passes_with_change"]) and (not os.path.exists(demo) or (meta["confirmed"].get("demo_passes_without_change") and meta["confirmed"].get("demo_fails_with_change")))
    meta["kept"] = bool(ok)
    # ---- 2. the registered checks against it
    if ok:
        assert sh("git -C /repo status --porcelain")[1].strip() == "", "/repo dirty"
        try:
            rc, out = sh("git -C /repo apply %s" % patch)
            assert rc == 0, out
            env = dict(os.environ)
            if modes:
                env["VERIF_ONLY_MODES"] = modes
            for c in checks:
                t0 = time.time()
                p = subprocess.run(["python3", "run/check.py", c, "--tier", tier], cwd=VERIF, env=env, stdout=subprocess.PIPE, stderr=subprocess.PIPE, text=True)
                viol = [l for l in p.stdout.splitlines() if l.startswith("VIOLATION")]
                first = [l.strip() for l in p.stdout.splitlines() if l.startswith("  ")][:3]
                meta["checks"][c] = {"cmd": "python3 run/check.py %s --tier %s%s" % (c, tier, (" (VERIF_ONLY_MODES=%s)" % modes) if modes else ""), "exit": p.returncode, "violations": len(viol), "witnesses": [w[:400] for w in first], "wall_s": round(time.time() - t0, 1)}
                print(c, "exit", p.returncode, "violations", len(viol), first[:1])
        finally:
            sh("git -C /repo checkout -- .")
    # ---- 3. keep
    dst = os.path.join(VERIF, "seeded", sid)
    os.makedirs(dst, exist_ok=True)
    if os.path.abspath(seed) != os.path.abspath(dst):
        shutil.copy(patch, os.path.join(dst, "patch.diff"))
        if os.path.exists(demo):
            shutil.copy(demo, os.path.join(dst, "seed_demo.rs"))
        if os.path.exists(readme):
            shutil.copy(readme, os.path.join(dst, "README.md"))
    meta["detected_by"] = [c for c, v in meta["checks"].items() if v["violations"] > 0]
    json.dump(meta, open(os.path.join(dst, "meta.json"), "w"), indent=1)
    print("kept=%s detected_by=%s" % (meta["kept"], meta["detected_by"]))

if __name__ == "__main__":
    main()
