#!/usr/bin/env python3
"""Driver of the lru-mem runtime-monitoring checks.

  python3 run/check.py <C01..C20> [--tier quick|thorough]     run one property's check
  python3 run/check.py replay <replay.json>                   re-execute a recorded witness
  python3 run/check.py setup                                  build every mode once

Exit 0: property held on everything explored (KNOWN-FINDING lines possible).
Exit 1: `VIOLATION property=<id> replay=<path>` printed.
Exit 2: `INCONCLUSIVE property=<id> reason=...` (build failure, watchdog, floors not met); never a VIOLATION line.
Stdlib only. Everything is rebuilt from /repo's working tree by cargo's path-dependency fingerprinting.
"""
import fcntl, hashlib, json, os, re, subprocess, sys, time
from concurrent.futures import ThreadPoolExecutor

VERIF = os.path.dirname(os.path.dirname(os.path.abspath(__file__)))
HARNESS = os.path.join(VERIF, "harness")
TARGET = os.path.join(VERIF, "target")
EVID = os.path.join(VERIF, "evidence")
REPLAYS = os.path.join(VERIF, "replays")
WORK = os.path.join(VERIF, "work")
NCPU = 16
ENV_BASE = dict(os.environ, CARGO_NET_OFFLINE="true", CARGO_TERM_COLOR="never")

sys.path.insert(0, os.path.dirname(os.path.abspath(__file__)))
from plans import PLANS, FLOORS, LEVELS, RULES, ASSUMPTIONS  # noqa: E402


def log(*a):
    print(*a, file=sys.stderr, flush=True)


def splitmix(*parts):
    h = hashlib.sha256(("/".join(str(p) for p in parts)).encode()).digest()
    return int.from_bytes(h[:8], "little") >> 1


# ---------------------------------------------------------------------------------- builds

MODES = {
    # name: (cargo args, extra env, binary path relative to TARGET)
    "native": (["build", "--release", "--offline"], {}, "native/release/lruverif"),
    "wrap": (["build", "--profile", "wrap", "--offline"], {}, "native/wrap/lruverif"),
    "debug0": (["build", "--offline"], {}, "native/debug/lruverif"),
    "asan": (["+nightly", "build", "--release", "--offline", "--features", "noarena", "--target", "x86_64-unknown-linux-gnu"],
             {"RUSTFLAGS": "-Zsanitizer=address -Cforce-frame-pointers=yes"}, "asan/x86_64-unknown-linux-gnu/release/lruverif"),
    "tsan": (["+nightly", "build", "--release", "--offline", "--features", "noarena", "-Zbuild-std", "--target", "x86_64-unknown-linux-gnu"],
             {"RUSTFLAGS": "-Zsanitizer=thread"}, "tsan/x86_64-unknown-linux-gnu/release/lruverif"),
}
MIRI_FLAGS = "-Zmiri-disable-isolation"


def target_dir(mode):
    return os.path.join(TARGET, "native" if mode in ("native", "wrap", "debug0") else mode)


def build(mode, bin="lruverif"):
    """Build one binary in one mode under an exclusive lock. Returns (ok, message)."""
    os.makedirs(TARGET, exist_ok=True)
    with open(os.path.join(TARGET, ".lock-" + ("native" if mode in ("native", "wrap", "debug0") else mode)), "w") as lk:
        fcntl.flock(lk, fcntl.LOCK_EX)
        t0 = time.time()
        if mode == "miri":
            cmd = ["cargo", "+nightly", "miri", "run", "--offline", "--bin", "lruverif", "--features", "noarena", "--target-dir", target_dir("miri"), "--", "noop"]
            env = dict(ENV_BASE, MIRIFLAGS=MIRI_FLAGS)
        else:
            args, extra, _ = MODES[mode]
            cargo = ["cargo"] + args + ["--bin", bin, "--target-dir", target_dir(mode)]
            cmd, env = cargo, dict(ENV_BASE, **extra)
        p = subprocess.run(cmd, cwd=HARNESS, env=env, stdout=subprocess.PIPE, stderr=subprocess.STDOUT, text=True)
        if p.returncode != 0:
            return False, "build of mode %s failed:\n%s" % (mode, p.stdout[-4000:])
        log("[build] %s/%s ok in %.1fs" % (mode, bin, time.time() - t0))
        return True, ""


def command_for(mode, argv, bin="lruverif"):
    if mode == "miri":
        return (["cargo", "+nightly", "miri", "run", "--offline", "--bin", "lruverif", "--features", "noarena", "--target-dir", target_dir("miri"), "--"] + argv,
                dict(ENV_BASE, MIRIFLAGS=MIRI_FLAGS))
    env = dict(ENV_BASE)
    if mode == "asan":
        env["ASAN_OPTIONS"] = "halt_on_error=1:abort_on_error=0:detect_leaks=1:exitcode=99:allocator_may_return_null=1"
    if mode == "tsan":
        env["TSAN_OPTIONS"] = "halt_on_error=1:exitcode=66"
    return [os.path.join(TARGET, MODES[mode][2].replace("lruverif", bin))] + argv, env


# ---------------------------------------------------------------------------------- running shards

SAN_PATTERNS = [
    (r"ERROR: AddressSanitizer: ([a-z\-]+)", "asan"),
    (r"ERROR: LeakSanitizer: detected memory leaks", "lsan"),
    (r"WARNING: ThreadSanitizer: ([a-z ]+)", "tsan"),
    (r"error: Undefined Behavior: (.*)", "miri"),
    (r"error: memory leaked", "miri-leak"),
    (r"error: (deadlock|unsupported operation|the evaluated program leaked memory).*", "miri-other"),
    (r"WRITE-TRAP addr=(0x[0-9a-f]+) in_arena=1", "write-trap"),
    (r"memory allocation of \d+ bytes failed", "alloc-abort"),
    (r"free\(\): double free|malloc\(\): |corrupted|munmap_chunk\(\)|free\(\): invalid", "glibc-heap"),
]


ALIASING = re.compile(r"retag|borrow stack|Tree Borrows|is forbidden|protected tag|reborrow")


def run_shard(job, shard, seed, tier):
    """Run one shard. A Miri diagnostic that only the experimental aliasing model (Stacked/Tree Borrows) raises is not
    something any property states: the shard is run again with the aliasing model off to obtain the verdict for the
    stated property, and the diagnostic is kept as an informational note (DESIGN 3.2)."""
    r = run_shard_once(job, shard, seed, tier, None)
    if job["mode"] == "miri" and r["result"] is None and r["reports"] and all(x["tool"] == "miri" and ALIASING.search(x["what"]) for x in r["reports"]):
        note = r["reports"][0]["what"]
        r = run_shard_once(job, shard, seed, tier, "-Zmiri-disable-stacked-borrows")
        r["aliasing_notes"] = [note]
    return r


NEG_DIR = os.path.join(VERIF, "harness_neg")
NEG_SRC = os.path.join(NEG_DIR, "src", "main.rs")
BORROWCK = re.compile(r"src/main\.rs:(\d+):\d+: error(\[E0(499|502|505|506|597|716|373|521)\]|: lifetime may not live long enough)")


def run_neg_compile(job, shard, seed, tier):
    """C18, negative direction: the compiler is the monitor. Every NEG block of harness_neg/src/main.rs must be rejected
    by the borrow checker; a block without an error is a program that keeps a reference while it mutates / drops the cache."""
    prop = job["prop"]
    t0 = time.time()
    with open(os.path.join(TARGET, ".lock-native"), "w") as lk:
        fcntl.flock(lk, fcntl.LOCK_EX)
        p = subprocess.run(["cargo", "build", "--offline", "--bin", "lruverif_c18neg", "--target-dir", os.path.join(TARGET, "neg"), "--message-format", "short"],
                           cwd=NEG_DIR, env=dict(ENV_BASE), stdout=subprocess.PIPE, stderr=subprocess.STDOUT, text=True)
    out = p.stdout
    err_lines = set(int(m.group(1)) for m in BORROWCK.finditer(out))
    other = [l for l in out.splitlines() if " error" in l and not BORROWCK.search(l) and "could not compile" not in l and "aborting due to" not in l]
    blocks, cur = [], None
    for i, l in enumerate(open(NEG_SRC).read().splitlines(), 1):
        if l.startswith("// NEG-BEGIN"):
            cur = [l[len("// NEG-BEGIN"):].strip(), i, None]
        elif l.startswith("// NEG-END") and cur:
            cur[2] = i
            blocks.append(cur)
            cur = None
    res = {"events": len(blocks), "evals": {prop: 0}, "distinct": {prop: []}, "counters": {}, "maxima": {}, "failures": [], "viol_counts": {}, "samples": {prop: []}}
    argv = ["neg_compile", "lruverif_c18neg"]
    if other or not blocks:
        # the file no longer type-checks (the API changed under it): the borrow checker did not run, nothing is decided
        return {"job": job, "shard": shard, "seed": seed, "argv": argv, "mode": job["mode"], "rc": 2, "timed_out": False, "result": None, "reports": [], "last_marker": None,
                "stderr_tail": "negative compile programs did not reach the borrow checker: " + " | ".join(other[:3])[:1500], "stdout_tail": out[-1500:], "wall": time.time() - t0}
    for name, a, b in blocks:
        res["evals"][prop] += 1
        res["distinct"][prop].append("neg%x" % splitmix("neg", name))
        res["counters"]["c18_programs_that_must_not_compile"] = res["counters"].get("c18_programs_that_must_not_compile", 0) + 1
        rejected = any(a <= n <= b for n in err_lines)
        if rejected:
            res["counters"]["c18_programs_rejected_by_the_borrow_checker"] = res["counters"].get("c18_programs_rejected_by_the_borrow_checker", 0) + 1
        else:
            res["failures"].append({"property": prop, "signature": "borrow-not-enforced", "kind": "neg_compile",
                                    "message": "a safe program that keeps what it obtained from the cache while it mutates, moves or drops the cache is accepted by the compiler: `%s` (harness_neg/src/main.rs lines %d-%d)" % (name, a, b)})
            res["viol_counts"][prop] = res["viol_counts"].get(prop, 0) + 1
    if len(res["samples"][prop]) < 3:
        res["samples"][prop].append("%d programs, borrow-check errors on lines %s" % (len(blocks), sorted(err_lines)[:25]))
    return {"job": job, "shard": shard, "seed": seed, "argv": argv, "mode": job["mode"], "rc": 0, "timed_out": False, "result": res, "reports": [], "last_marker": None,
            "stderr_tail": "", "stdout_tail": "", "wall": time.time() - t0}


def run_shard_once(job, shard, seed, tier, extra_miri):
    if job.get("neg_compile"):
        return run_neg_compile(job, shard, seed, tier)
    mode = job["mode"]
    argv = [job["cmd"]] + [a.format(seed=seed, shard=shard, nshards=job["shards"], tier=tier) for a in job["args"]]
    argv += ["--seed", str(seed), "--shard", str(shard), "--nshards", str(job["shards"])]
    budget = job["budget"][tier] if isinstance(job["budget"], dict) else job["budget"]
    if budget is not None:
        argv += ["--" + job.get("budget_arg", "events"), str(budget)]
    env_extra = job.get("env", {})
    cmd, env = command_for(mode, argv, job.get("bin", "lruverif"))
    env.update(env_extra)
    if mode == "asan" and job.get("asan_options"):
        env["ASAN_OPTIONS"] = job["asan_options"]
    if mode == "miri" and (job.get("miri_flags") or extra_miri):
        env["MIRIFLAGS"] = " ".join(x for x in [MIRI_FLAGS, job.get("miri_flags"), extra_miri] if x)
    timeout = job.get("watchdog", {"quick": 900, "thorough": 7200})[tier]
    t0 = time.time()
    try:
        p = subprocess.run(cmd, cwd=HARNESS, env=env, stdout=subprocess.PIPE, stderr=subprocess.PIPE, text=True, timeout=timeout, errors="replace")
        rc, so, se = p.returncode, p.stdout, p.stderr
        timed_out = False
    except subprocess.TimeoutExpired as e:
        rc, so, se = -999, (e.stdout or b"").decode(errors="replace") if isinstance(e.stdout, bytes) else (e.stdout or ""), (e.stderr or b"").decode(errors="replace") if isinstance(e.stderr, bytes) else (e.stderr or "")
        timed_out = True
    res = None
    for line in so.splitlines():
        if line.startswith("RESULT "):
            try:
                res = json.loads(line[7:])
            except Exception:
                res = None
    if job.get("verdict") == "exit" and not timed_out:
        # totality cases: one process each, the verdict is the exit status (a stack overflow aborts the process)
        prop = job["prop"]
        ok = rc == 0 and "TOTAL-OK" in so
        what = " ".join(argv)
        res = {"events": 1, "evals": {prop: 1}, "distinct": {prop: ["%x" % splitmix(mode, what)]}, "counters": {"c08_totality_cases_%s" % mode: 1}, "maxima": {}, "failures": [], "viol_counts": {},
               "samples": {prop: ["[%s] %s -> %s" % (mode, what, (so.strip().splitlines() or ["(no output)"])[-1][:200])]}}
        if rc != 0 or "TOTAL-OK" not in so:
            if "TOTAL-NONE" in so:
                res["evals"][prop] = 0
            else:
                overflow = "overflowed its stack" in se
                sig = "totality-stack-overflow" if overflow else ("totality-panic" if "panicked" in se else "totality-died")
                res["failures"].append({"property": prop, "signature": sig, "kind": "exit", "message": "`%s` (%s build) did not finish: exit status %s; %s" % (what, mode, rc, se.strip()[-300:].replace("\n", " | "))})
                res["viol_counts"][prop] = 1
    if job.get("abort_ok") and res is None and not timed_out and rc == -6 and re.search(r"memory allocation of \d+ bytes failed", se) and "CASE clone_refusal armed" in so:
        # an infallible operation was refused memory on purpose: aborting is what it is specified to do (nothing returned, nothing to judge)
        prop = job["prop"]
        res = {"events": 1, "evals": {prop: 1}, "distinct": {prop: ["%x" % splitmix(mode, " ".join(argv))]}, "counters": {"c14_clone_refusal_process_aborted": 1}, "maxima": {}, "failures": [], "viol_counts": {},
               "samples": {prop: [[l for l in so.splitlines() if l.startswith("CASE ")][-1][:200] + " -> process aborted (handle_alloc_error)"]}}
        se = ""
        rc = 0
    reports = []
    text = so + "\n" + se
    for pat, kind in SAN_PATTERNS:
        for m in re.finditer(pat, text):
            reports.append({"tool": kind, "what": m.group(0)[:300]})
    last_marker = None
    for line in so.splitlines():
        if line.startswith("CASE "):
            last_marker = line[5:].strip()
    return {"job": job, "shard": shard, "seed": seed, "argv": argv, "mode": mode, "rc": rc, "timed_out": timed_out, "result": res,
            "reports": reports, "last_marker": last_marker, "stderr_tail": se[-3000:], "stdout_tail": so[-1500:] if res is None else "", "wall": time.time() - t0}


# ---------------------------------------------------------------------------------- known findings

def load_known():
    p = os.path.join(VERIF, "known_findings.json")
    if not os.path.exists(p):
        return []
    with open(p) as f:
        return json.load(f).get("findings", [])


def match_known(known, prop, sig, msg):
    for k in known:
        if k.get("status") != "known" or k.get("property") != prop:
            continue
        if k.get("signature") == sig and re.search(k.get("message_regex", ""), msg or ""):
            return k
    return None


# ---------------------------------------------------------------------------------- one check

def run_check(prop, tier, seed):
    t0 = time.time()
    plan = PLANS[prop]
    jobs = [j for j in plan if tier in j.get("tiers", ("quick", "thorough"))]
    only = os.environ.get("VERIF_ONLY_MODES")  # selftest speed-up; never set by the registered commands
    if only:
        jobs = [j for j in jobs if j["mode"] in only.split(",")]
    modes = sorted(set((j["mode"], j.get("bin", "lruverif")) for j in jobs if not j.get("neg_compile")))
    os.makedirs(EVID, exist_ok=True)
    os.makedirs(REPLAYS, exist_ok=True)
    compile_violations = []
    neg_results = [run_shard(j, 0, seed, tier) for j in jobs if j.get("neg_compile")]
    jobs = [j for j in jobs if not j.get("neg_compile")]
    neg_violated = any(r["result"] and r["result"].get("viol_counts") for r in neg_results)
    for m, b in modes:
        ok, msg = build(m, b)
        if not ok:
            log(msg)
            if neg_violated:
                # the harness no longer builds against this tree, but the compiler has already accepted a program it must reject
                return merge(prop, tier, seed, t0, neg_results, compile_violations)
            cv = [j for j in jobs if j["mode"] == m and j.get("bin", "lruverif") == b and j.get("compile_verdict")]
            if cv and len(cv) == len([j for j in jobs if j["mode"] == m and j.get("bin", "lruverif") == b]) and any((mm, bb) != (m, b) for mm, bb in modes):
                # an exercise program whose only purpose is to USE the API in a way the property promises must compile:
                # if the rest of the harness builds and this does not, the promise is broken at compile time
                errs = [l for l in msg.splitlines() if l.startswith("error")][:3]
                compile_violations.append({"property": prop, "signature": "exercise-does-not-compile", "kind": "compile", "mode": m, "argv": [b],
                                           "message": "the exercise program %s no longer compiles against this tree: %s" % (b, " | ".join(errs)[:600]), "compiler_output": msg[-3000:]})
                jobs = [j for j in jobs if not (j["mode"] == m and j.get("bin", "lruverif") == b)]
                continue
            return finish(prop, tier, seed, t0, None, [], [], "build failed for mode %s" % m, {})
    tasks = []
    for ji, j in enumerate(jobs):
        for s in range(j["shards"]):
            tasks.append((j, s, splitmix(seed, prop, j["mode"], j["cmd"], ji, s)))
    # longest first: interpreter shards, then sanitizer shards, then native ones
    tasks.sort(key=lambda t: {"miri": 0, "tsan": 1, "asan": 2}.get(t[0]["mode"], 3))
    with ThreadPoolExecutor(max_workers=NCPU) as ex:
        results = list(ex.map(lambda t: run_shard(t[0], t[1], t[2], tier), tasks))
    return merge(prop, tier, seed, t0, neg_results + results, compile_violations)


def merge(prop, tier, seed, t0, results, compile_violations=()):
    known = load_known()
    evals = 0
    distinct = set()
    counters, maxima, per_mode = {}, {}, {}
    samples = []
    violations, known_hits, other = list(compile_violations), {}, {}
    inconclusive = []
    gate_broken = 0
    san_reports = 0
    aliasing_notes = []
    for r in results:
        aliasing_notes += r.get("aliasing_notes", [])
        job, res = r["job"], r["result"]
        tag = "%s:%s" % (r["mode"], job["cmd"])
        pm = per_mode.setdefault(tag, {"shards": 0, "events": 0, "evaluations": 0, "wall_s": 0.0})
        pm["shards"] += 1
        pm["wall_s"] = round(pm["wall_s"] + r["wall"], 2)
        # --- sanitizer / interpreter / trap reports are verdicts of the memory properties
        own_reports = [x for x in r["reports"]]
        attributed = job.get("reports_to", [])
        if own_reports:
            san_reports += len(own_reports)
            what = "; ".join(sorted(set(x["tool"] + ": " + x["what"] for x in own_reports)))[:600]
            sig = "sanitizer-" + own_reports[0]["tool"]
            msg = "%s reported by %s in `%s` (last case marker: %s)" % (what, r["mode"], " ".join(r["argv"]), r["last_marker"])
            tgt = violations if prop in attributed else None
            fail = {"property": prop, "signature": sig, "message": msg, "kind": "sanitizer", "argv": r["argv"], "mode": r["mode"], "stderr_tail": r["stderr_tail"][-2500:], "last_marker": r["last_marker"]}
            if tgt is not None:
                k = match_known(known, prop, sig, msg)
                if k:
                    known_hits[k["id"]] = k
                else:
                    violations.append(fail)
            else:
                for a in attributed:
                    other[a] = other.get(a, 0) + 1
        if res is None:
            if r["timed_out"]:
                inconclusive.append("watchdog expired for `%s` (%s)" % (" ".join(r["argv"]), r["mode"]))
            elif not own_reports:
                # a crash that no monitor explains: glibc aborts and signals count for the memory properties only
                crash = "exit status %s" % r["rc"]
                # only signals a memory error raises by itself (SEGV, ABRT from glibc's heap checks, BUS, ILL, FPE) are verdicts, and only
                # natively / under a sanitizer; an external kill (TERM, KILL, INT, HUP) or anything under the interpreter is not
                if r["rc"] in (-11, -6, -7, -4, -8) and r["mode"] != "miri" and prop in job.get("reports_to", []):
                    msg = "process died with signal %d in `%s` (last case marker: %s); stderr: %s" % (-r["rc"], " ".join(r["argv"]), r["last_marker"], r["stderr_tail"][-400:])
                    k = match_known(known, prop, "crash-signal", msg)
                    if k:
                        known_hits[k["id"]] = k
                    else:
                        violations.append({"property": prop, "signature": "crash-signal", "message": msg, "kind": "crash", "argv": r["argv"], "mode": r["mode"], "last_marker": r["last_marker"]})
                else:
                    inconclusive.append("no result from `%s` (%s, %s): %s" % (" ".join(r["argv"]), r["mode"], crash, (r["stderr_tail"] or r["stdout_tail"])[-600:].replace("\n", " | ")))
            continue
        pm["events"] += res.get("events", 0)
        e = res.get("evals", {}).get(prop, 0)
        evals += e
        pm["evaluations"] += e
        for h in res.get("distinct", {}).get(prop, []):
            distinct.add(tag.split(":")[0][0] + h if job.get("distinct_per_mode") else h)
        for k, v in res.get("counters", {}).items():
            counters[k] = counters.get(k, 0) + v
        for k, v in res.get("maxima", {}).items():
            maxima[k] = max(maxima.get(k, 0), v)
        for k in (prop, "hist"):
            for s in res.get("samples", {}).get(k, []):
                if len(samples) < 6 and s not in samples:
                    samples.append(s)
        gate_broken += res.get("gate_broken_histories", 0)
        for f in res.get("failures", []):
            if f["property"] == "ASSUME":
                inconclusive.append("an assumption of the harness does not hold on this tree: %s" % f.get("message", "")[:300])
                continue
            if f["property"] != prop:
                continue
            f = dict(f, mode=r["mode"], argv=r["argv"])
            k = match_known(known, prop, f.get("signature"), f.get("message"))
            if k:
                known_hits[k["id"]] = k
            else:
                violations.append(f)
        for p2, n in res.get("viol_counts", {}).items():
            if p2 != prop:
                other[p2] = other.get(p2, 0) + n
    cov = {"evaluations": evals, "distinct": distinct, "counters": counters, "maxima": maxima, "per_mode": per_mode, "samples": samples,
           "gate_broken_histories": gate_broken, "other_properties_observed": other, "sanitizer_reports": san_reports, "aliasing_notes": aliasing_notes}
    reason = "; ".join(inconclusive[:3]) if inconclusive else None
    return finish(prop, tier, seed, t0, cov, violations, list(known_hits.values()), reason, results)


def check_floors(prop, tier, cov):
    unmet = []
    floors = FLOORS.get(prop, {})
    for name, need in floors.items():
        need = need[tier] if isinstance(need, dict) else need
        if name == "evaluations":
            have = cov["evaluations"]
        elif name == "distinct":
            have = len(cov["distinct"])
        elif name.startswith("max:"):
            have = cov["maxima"].get(name[4:], 0)
        elif name.startswith("sum:"):
            pref = name[4:]
            have = sum(v for k, v in cov["counters"].items() if k.startswith(pref))
        elif name.startswith("each:"):
            pref = name[5:]
            vals = [v for k, v in cov["counters"].items() if k.startswith(pref)]
            have = min(vals) if vals else 0
        else:
            have = cov["counters"].get(name, 0)
        if have < need:
            unmet.append("%s: %d < %d" % (name, have, need))
    return floors, unmet


def finish(prop, tier, seed, t0, cov, violations, known_hits, reason, results):
    wall = round(time.time() - t0, 2)
    level = LEVELS[prop]
    verdict = "held"
    replay_paths = []
    if cov is None:
        cov = {"evaluations": 0, "distinct": set(), "counters": {}, "maxima": {}, "per_mode": {}, "samples": [], "gate_broken_histories": 0, "other_properties_observed": {}, "sanitizer_reports": 0, "aliasing_notes": []}
    floors, unmet = check_floors(prop, tier, cov)
    for k in known_hits:
        print("KNOWN-FINDING: property=%s %s" % (prop, k["what"]))
    if violations:
        verdict = "violated"
        # distinct kinds of witness first; at most two replays per signature family, eight in all
        fam = lambda f: (str(f.get("signature", "")).split(":")[0], f.get("mode", "native"))
        count = {}
        ordered = []
        for f in violations:
            count[fam(f)] = count.get(fam(f), 0) + 1
            if count[fam(f)] <= 2:
                ordered.append(f)
        ordered.sort(key=lambda f: 0 if count[fam(f)] else 1)
        by_first = sorted(ordered, key=lambda f: [g for g in ordered if fam(g) == fam(f)].index(f))
        for f in by_first[:8]:
            path = os.path.join(REPLAYS, "%s-%s-%s-%d-%d.json" % (prop, f.get("mode", "native"), tier, seed, len(replay_paths)))
            with open(path, "w") as fh:
                json.dump(dict(f, tier=tier, seed=seed), fh, indent=1)
            replay_paths.append(path)
            print("VIOLATION property=%s replay=%s" % (prop, path))
            print("  %s" % (f.get("message", "")[:500]))
    elif reason or unmet:
        verdict = "inconclusive"
        why = reason or ("non-vacuity floors not met: " + ", ".join(unmet))
        print("INCONCLUSIVE property=%s reason=%s" % (prop, why[:800]))
    coverage = {
        "evaluations": cov["evaluations"],
        "distinct_nontrivial": len(cov["distinct"]),
        "rule": RULES[prop],
        "samples": cov["samples"][:6] if cov["samples"] else ["(no sample recorded)"],
        "verdict": verdict,
        "per_mode": cov["per_mode"],
        "boundary_counters": {k: v for k, v in sorted(cov["counters"].items()) if relevant_counter(prop, k)},
        "maxima": {k: v for k, v in sorted(cov["maxima"].items()) if relevant_counter(prop, k)},
        "floors": floors, "floors_unmet": unmet,
        "sanitizer_reports": cov["sanitizer_reports"],
        "gate_broken_histories": cov["gate_broken_histories"],
        "other_properties_observed": cov["other_properties_observed"],
        "known_findings_hit": [k["id"] for k in known_hits],
        "aliasing_model_diagnostics_informational": sorted(set(cov.get("aliasing_notes", [])))[:5],
        "replays": replay_paths,
    }
    if level == "other":
        coverage["explanation"] = RULES[prop]
    if cov["evaluations"] > 0 and PLANS[prop] and all(j.get("exhaustive") for j in PLANS[prop] if tier in j.get("tiers", ("quick", "thorough"))):
        coverage["exhaustive"] = True
    ev = {"property_id": prop, "tier": tier, "seed": seed, "level": level, "coverage": coverage,
          "assumptions": [a for a in ASSUMPTIONS.get(prop, []) + ASSUMPTIONS["*"] if isinstance(a, str)], "wall_s": wall, "violations": len(violations)}
    with open(os.path.join(EVID, prop + ".json"), "w") as fh:
        json.dump(ev, fh, indent=1, sort_keys=True)
    log("[%s] %s tier=%s seed=%d evaluations=%d distinct=%d wall=%.1fs other=%s" % (prop, verdict, tier, seed, cov["evaluations"], len(cov["distinct"]), wall, cov["other_properties_observed"]))
    return {"held": 0, "violated": 1, "inconclusive": 2}[verdict]


def relevant_counter(prop, name):
    pref = {"C03": ("multi", "exact", "one_over", "replace", "grow_the", "limit_"), "C04": ("lookup_", "const_hasher", "max_len", "reallocations", "tomb"),
            "C05": ("promote_", "debug_", "order_", "reallocations", "interleav"), "C10": ("c10_",), "C11": ("c11_",), "C12": ("c12_",), "C13": ("c13_", "reallocations", "churn", "interleav"),
            "C14": ("c14_",), "C15": ("c15_",), "C20": ("c20_",), "C01": ("exact", "one_over", "limit_", "grow_the", "multi", "c01_", "extreme"),
            "C02": ("replacements", "c11_class", "c02_", "multi", "reallocations", "extreme"), "C07": ("reallocations", "max_len", "c07_", "interleav"), "C06": ("c06_", "c12_dropped"),
            "C16": ("c16_",), "C17": ("c17_",), "C08": ("c08_",), "C09": ("c09_",), "C18": ("c18_",), "C19": ("c19_",)}
    return name.startswith(pref.get(prop, ()))


# ---------------------------------------------------------------------------------- replay

def replay(path):
    with open(path) as f:
        rec = json.load(f)
    mode = rec.get("mode", "native")
    a0 = rec.get("argv", [""])[0]
    if a0 == "neg_compile":
        r = run_neg_compile({"prop": rec.get("property"), "mode": "native"}, 0, 0, "quick")
        hits = [f for f in (r["result"] or {}).get("failures", [])]
        if r["result"] is None:
            print("INCONCLUSIVE property=%s reason=%s" % (rec.get("property"), r["stderr_tail"][:300]))
            return 2
        if hits:
            print("VIOLATION property=%s replay=%s" % (rec.get("property"), path))
            for f in hits[:3]:
                print("  %s" % f["message"][:600])
            return 1
        print("replay of %s: no violation of %s reproduced" % (path, rec.get("property")))
        return 0
    bin = "lruverif_tot" if a0 == "memsize_total" else "lruverif_ms" if a0 == "memsize" else "lruverif"
    ok, msg = build(mode, bin)
    if not ok:
        log(msg)
        print("INCONCLUSIVE property=%s reason=build failed" % rec.get("property"))
        return 2
    if rec.get("kind") == "history":
        os.makedirs(WORK, exist_ok=True)
        fn = os.path.join(WORK, "replay-%d.txt" % os.getpid())
        with open(fn, "w") as fh:
            fh.write(rec["cfg"] + "\n" + "\n".join(rec["ops"]) + "\n")
        argv = ["replay", "--file", fn]
    elif rec.get("kind") == "inject":
        os.makedirs(WORK, exist_ok=True)
        fn = os.path.join(WORK, "replay-%d.txt" % os.getpid())
        with open(fn, "w") as fh:
            fh.write(rec["cfg"] + "\n" + "inject %s %d %d\n" % (rec["inject_class"], rec["inject_n"], rec["failing_event"]) + "\n".join(rec["ops"]) + "\n")
        argv = ["replay_inject", "--file", fn]
    else:
        argv = rec["argv"]
    cmd, env = command_for(mode, argv, bin)
    p = subprocess.run(cmd, cwd=HARNESS, env=env, stdout=subprocess.PIPE, stderr=subprocess.PIPE, text=True, errors="replace")
    res = None
    for line in p.stdout.splitlines():
        if line.startswith("RESULT "):
            res = json.loads(line[7:])
    prop = rec.get("property")
    hits = [f for f in (res or {}).get("failures", []) if f["property"] == prop]
    text = p.stdout + p.stderr
    san = [m.group(0) for pat, _ in SAN_PATTERNS for m in re.finditer(pat, text)]
    if hits or san or (res is None and p.returncode != 0):
        print("VIOLATION property=%s replay=%s" % (prop, path))
        for f in hits[:3]:
            print("  %s" % f["message"][:600])
        for s in san[:3]:
            print("  %s" % s)
        return 1
    print("replay of %s: no violation of %s reproduced" % (path, prop))
    return 0


def main():
    if len(sys.argv) < 2:
        print(__doc__)
        return 2
    cmd = sys.argv[1]
    if cmd == "setup":
        rc = 0
        for m, b in [("native", "lruverif"), ("wrap", "lruverif"), ("asan", "lruverif"), ("miri", "lruverif"), ("debug0", "lruverif_ms"), ("debug0", "lruverif_tot"), ("native", "lruverif_tot"), ("native", "lruverif_c18")]:
            ok, msg = build(m, b)
            if not ok:
                log(msg)
                rc = 1
        return rc
    if cmd == "replay":
        return replay(sys.argv[2])
    prop = cmd
    if prop not in PLANS:
        print("unknown property %s" % prop)
        return 2
    tier = os.environ.get("VERIF_TIER", "quick")
    if "--tier" in sys.argv:
        tier = sys.argv[sys.argv.index("--tier") + 1]
    seed = int(os.environ.get("VERIF_SEED", "0") or 0)
    return run_check(prop, tier, seed)


if __name__ == "__main__":
    sys.exit(main())
