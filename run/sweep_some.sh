#!/bin/bash
# usage: run/sweep_some.sh <tier> <seed> <prop>...
cd "$(dirname "$0")/.."
tier=$1; seed=$2; shift; shift
if [ -n "$VP_RUN_REPO" ] && [ "$(pwd)" != "/verif" ]; then sed -i "s#path = \"/repo\"#path = \"$VP_RUN_REPO\"#" harness/Cargo.toml harness_neg/Cargo.toml; echo "using repo snapshot $VP_RUN_REPO"; fi
for p in "$@"; do
  t0=$(date +%s)
  out=$(VERIF_SEED=$seed python3 run/check.py $p --tier $tier 2>/dev/null)
  rc=$?
  echo "seed=$seed $p tier=$tier exit=$rc wall=$(( $(date +%s) - t0 ))s $(echo "$out" | grep -E '^(VIOLATION|INCONCLUSIVE)' | head -2 | tr '\n' ' ' | cut -c 1-300)"
done
