//! Observation of a cache through `&self` only: hook walk (primary), public traversals
//! and lookups compared against it (observation gate G1-G3).

use crate::ops::{Cache, HB};
use crate::rng::mix;
use crate::types::*;
use lru_mem::VerifWalkEnd;

#[derive(Clone, Debug, PartialEq)]
pub struct Ent {
    pub id: u32,
    pub kuid: u64,
    pub vuid: u64,
    /// size recorded inside the entry (hook)
    pub rec: usize,
    pub kheap: usize,
    pub vheap: usize,
    pub stamp: u64,
    pub kaddr: usize,
    pub vaddr: usize,
    pub node: usize,
}

impl Ent {
    /// entry_size(key, value) computed from the declared sizes, in u128
    pub fn esize(&self, base: usize) -> u128 { self.kheap as u128 + self.vheap as u128 + base as u128 }
}

#[derive(Clone, Debug, PartialEq)]
pub struct Obs {
    /// entries LRU -> MRU as the hook's forward walk sees them
    pub ents: Vec<Ent>,
    pub len: usize,
    pub cur: usize,
    pub max: usize,
    pub cap: usize,
    pub empty: bool,
    pub buckets: usize,
    pub seal: usize,
    /// address of the table's data part (changes when the table is re-allocated)
    pub table_at: usize,
    pub g1: Vec<String>,
    pub g2: Vec<String>,
    pub g3: Vec<String>,
    /// hash over addresses, links, sizes, identities: "exactly as it was"
    pub fingerprint: u64,
    /// id -> position in `ents` (first occurrence)
    pub index: std::collections::HashMap<u32, u32>,
}

impl Obs {
    pub fn pos(&self, id: u32) -> Option<usize> { if self.ents.len() <= 8 { self.ents.iter().position(|e| e.id == id) } else { self.index.get(&id).map(|p| *p as usize) } }
    pub fn find(&self, id: u32) -> Option<&Ent> { self.pos(id).map(|p| &self.ents[p]) }
    pub fn has(&self, id: u32) -> bool { self.pos(id).is_some() }
    pub fn sum_rec(&self) -> u128 { self.ents.iter().map(|e| e.rec as u128).sum() }
    pub fn sum_esize(&self, base: usize) -> u128 { self.ents.iter().map(|e| e.esize(base)).sum() }
    pub fn ids(&self) -> Vec<u32> { self.ents.iter().map(|e| e.id).collect() }
    pub fn gate_ok(&self) -> bool { self.g1.is_empty() }
    /// state a user can see, without addresses (for "contents, order and sizes untouched")
    pub fn logical(&self) -> Vec<(u32, u64, u64, usize, usize, usize)> {
        self.ents.iter().map(|e| (e.id, e.kuid, e.vuid, e.rec, e.kheap, e.vheap)).collect()
    }
}

#[derive(Clone, Copy)]
pub struct ObsOpts {
    /// ids 0..universe are looked up (G3); 0 disables the sweep
    pub universe: u32,
    /// also look up through the owned key form
    pub owned_form: bool,
    /// run the public traversals (G2)
    pub traversals: bool,
    /// upper bound on walk steps
    pub limit: usize,
}

pub fn observe<S: HB>(c: &Cache<S>, o: &ObsOpts) -> Obs {
    let w = c.verif_walk(o.limit);
    let mut g1 = Vec::new();
    let mut g2 = Vec::new();
    let mut g3 = Vec::new();
    let len = c.len();
    let mut ents = Vec::with_capacity(w.forward.len());
    for n in &w.forward {
        let (k, v) = unsafe { (&*n.key, &*n.value) };
        ents.push(Ent { id: k.id, kuid: k.uid, vuid: v.uid, rec: n.size, kheap: k.heap, vheap: v.heap, stamp: v.stamp,
            kaddr: n.key as usize, vaddr: n.value as usize, node: n.addr });
    }
    // ---- G1 structure
    if w.forward_end != VerifWalkEnd::Closed { g1.push(format!("forward walk ended {:?} after {} nodes", w.forward_end, w.forward.len())); }
    if w.backward_end != VerifWalkEnd::Closed { g1.push(format!("backward walk ended {:?} after {} nodes", w.backward_end, w.backward.len())); }
    if g1.is_empty() {
        let fwd: Vec<usize> = w.forward.iter().map(|n| n.addr).collect();
        let mut back = w.backward.clone();
        back.reverse();
        if fwd != back { g1.push(format!("forward and backward walks are not mirror images ({} vs {} nodes)", fwd.len(), back.len())); }
        if fwd.len() != len { g1.push(format!("walk has {} nodes but len() = {}", fwd.len(), len)); }
        let mut sorted = fwd.clone();
        sorted.sort_unstable();
        let dup = sorted.windows(2).any(|p| p[0] == p[1]);
        if dup { g1.push("a node occurs twice in the walk".to_string()); }
        if sorted != w.bucket_addrs { g1.push(format!("walked nodes != occupied buckets ({} vs {})", sorted.len(), w.bucket_addrs.len())); }
        // link symmetry
        for (i, n) in w.forward.iter().enumerate() {
            let towards_lru = if i == 0 { w.seal } else { w.forward[i - 1].addr };
            let towards_mru = if i + 1 == w.forward.len() { w.seal } else { w.forward[i + 1].addr };
            if n.next != towards_lru || n.prev != towards_mru { g1.push(format!("asymmetric links at node {}", i)); break; }
        }
        let mut ids: Vec<u32> = ents.iter().map(|e| e.id).collect();
        ids.sort_unstable();
        if ids.windows(2).any(|p| p[0] == p[1]) { g1.push("a key id occurs twice".to_string()); }
        if w.table_len != len { g1.push("table len != len()".to_string()); }
    }
    if c.is_empty() != (len == 0) { g1.push("is_empty() != (len() == 0)".to_string()); }
    // ---- G2 traversal (only on a sound structure: a corrupt list could hang the public iterators)
    if g1.is_empty() && o.traversals {
        let want: Vec<(usize, usize)> = ents.iter().map(|e| (e.kaddr, e.vaddr)).collect();
        let lim = len + 2;
        let it: Vec<(usize, usize)> = c.iter().take(lim).map(|(k, v)| (k as *const TKey as usize, v as *const TVal as usize)).collect();
        if it != want { g2.push(format!("iter() disagrees with the link walk ({} items vs {})", it.len(), want.len())); }
        let mut rv: Vec<(usize, usize)> = c.iter().rev().take(lim).map(|(k, v)| (k as *const TKey as usize, v as *const TVal as usize)).collect();
        rv.reverse();
        if rv != want { g2.push(format!("iter().rev() disagrees with the link walk ({} items vs {})", rv.len(), want.len())); }
        let ks: Vec<usize> = c.keys().take(lim).map(|k| k as *const TKey as usize).collect();
        if ks != want.iter().map(|x| x.0).collect::<Vec<_>>() { g2.push("keys() disagrees with the link walk".to_string()); }
        let vs: Vec<usize> = c.values().take(lim).map(|v| v as *const TVal as usize).collect();
        if vs != want.iter().map(|x| x.1).collect::<Vec<_>>() { g2.push("values() disagrees with the link walk".to_string()); }
        let pl = c.peek_lru().map(|(k, v)| (k as *const TKey as usize, v as *const TVal as usize));
        if pl != want.first().cloned() { g2.push("peek_lru() disagrees with the link walk".to_string()); }
        let pm = c.peek_mru().map(|(k, v)| (k as *const TKey as usize, v as *const TVal as usize));
        if pm != want.last().cloned() { g2.push("peek_mru() disagrees with the link walk".to_string()); }
    }
    // ---- G3 lookup identity
    if g1.is_empty() && o.universe > 0 {
        let mut by_id: std::collections::HashMap<u32, (usize, usize)> = std::collections::HashMap::new();
        if ents.len() > 8 { for e in ents.iter().rev() { by_id.insert(e.id, (e.kaddr, e.vaddr)); } }
        // small universes are swept completely; large ones: every present id plus a sample of absent ones
        let probe: Vec<u32> = if o.universe <= 64 { (0..o.universe).collect() } else {
            let mut v: Vec<u32> = ents.iter().map(|e| e.id).collect();
            let salt = ents.len() as u64 ^ c.current_size() as u64;
            for i in 0..16u64 { v.push((mix(&[salt, i]) % o.universe as u64) as u32); }
            v
        };
        for id in probe {
            let want = if ents.len() > 8 { by_id.get(&id).cloned() } else { ents.iter().find(|e| e.id == id).map(|e| (e.kaddr, e.vaddr)) };
            let b = c.peek_entry(&KeyId(id)).map(|(k, v)| (k as *const TKey as usize, v as *const TVal as usize));
            if b != want { g3.push(format!("peek_entry(&KeyId({})) finds {:?}, the walk shows {:?}", id, b, want)); }
            if c.contains(&KeyId(id)) != want.is_some() { g3.push(format!("contains(&KeyId({})) disagrees with the walk", id)); }
            let p = c.peek(&KeyId(id)).map(|v| v as *const TVal as usize);
            if p != want.map(|x| x.1) { g3.push(format!("peek(&KeyId({})) disagrees with the walk", id)); }
            if o.owned_form {
                let probe = TKey::new(id, 0);
                let b = c.peek_entry(&probe).map(|(k, v)| (k as *const TKey as usize, v as *const TVal as usize));
                if b != want { g3.push(format!("peek_entry(&TKey {}) disagrees with the walk", id)); }
                if c.contains(&probe) != want.is_some() { g3.push(format!("contains(&TKey {}) disagrees with the walk", id)); }
            }
        }
    }
    let mut fp = mix(&[w.seal as u64, w.seal_prev as u64, w.seal_next as u64, w.buckets as u64, w.table_data_end as u64, len as u64, c.current_size() as u64, c.max_size() as u64, c.capacity() as u64]);
    for n in &w.forward { fp = mix(&[fp, n.addr as u64, n.prev as u64, n.next as u64, n.size as u64, n.key as u64, n.value as u64]); }
    for e in &ents { fp = mix(&[fp, e.kuid, e.vuid, e.kheap as u64, e.vheap as u64, e.stamp]); }
    let mut index = std::collections::HashMap::new();
    if ents.len() > 8 { index.reserve(ents.len()); for (i, e) in ents.iter().enumerate() { index.entry(e.id).or_insert(i as u32); } }
    Obs {
        index, ents, len, cur: c.current_size(), max: c.max_size(), cap: c.capacity(), empty: c.is_empty(), buckets: w.buckets,
        seal: w.seal, table_at: w.table_data_end, g1, g2, g3, fingerprint: fp,
    }
}
