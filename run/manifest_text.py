"""Human-written texts of MANIFEST.json (levels, notes, techniques)."""

HOOK_COMMITS = ["f6e0534", "8b4a7d8", "2faf472"]

_HIST_NOTE = ("Trusted base: the harness (instrumented TKey/TVal/TH types, hook walk, u128 oracles), rustc, and the read-only verif-hooks walker. "
              "Covers only the generated histories of this run; counts and boundary counters are in the evidence file; non-vacuity floors make a run that missed the relevant situations inconclusive.")

TEXT = {
    "C01": {"technique": "runtime monitor: bound assertion after every event of boundary-directed random histories (checked + wrapping arithmetic builds), after every caught injected panic, and in a lock-step run against an executable sequential model for non-instrumented key/value types",
            "design_ref": "DESIGN.md section 5 C01", "level_note": _HIST_NOTE,
            "level_text": "Exploration: current_size() <= max_size() and the true u128 sum of held entry sizes <= max_size() are asserted after every public call of 10^6 (quick) to 10^8 (thorough) generated events, with sizes steered onto exact-fit / one-over / k-eviction thresholds, limits from 0 to usize::MAX and an extreme-size sub-profile. A finite sample of an unbounded space of histories; it cannot prove the bound, it can refute it with a replayable witness."},
    "C02": {"technique": "runtime monitor: accounting identities (public API vs hook-recorded sizes, u128) after every event; lock-step sequential model; real-heap String/Vec caches incl. clones",
            "design_ref": "DESIGN.md section 5 C02", "level_note": _HIST_NOTE,
            "level_text": "Exploration: after every event current_size() is compared with the u128 sum of entry_size over the entries found by the hook walk and with the sum of the sizes recorded inside the entries; len/is_empty consistency; per-entry recorded size == entry_size. Drift shows at the faulty step, not at a later eviction."},
    "C03": {"technique": "runtime monitor: departures of each event vs shortest-LRU-prefix oracle computed from the observed pre-state; drop-order ledger",
            "design_ref": "DESIGN.md section 5 C03", "level_note": _HIST_NOTE,
            "level_text": "Exploration on full caches with sizes aimed at exactly-k-evictions +-1 byte, replacement-then-evict and growth of the LRU entry; floors require multi-entry evictions, exact fits and grow-the-LRU cases to have been observed."},
    "C04": {"technique": "runtime monitor: unique-id differential map oracle on every return value and on a full lookup sweep (owned + borrowed key forms) after every event; lookup keys that alias stored keys' buffers; 5-9 M-entry and 2^26-bucket rebuilds",
            "design_ref": "DESIGN.md section 5 C04", "level_note": _HIST_NOTE,
            "level_text": "Exploration over tiny key universes, four deterministic hashers including a constant one plus hashbrown's default, tombstone churn and reallocation anywhere. Every value has a unique id, so each read identifies the write it observed."},
    "C05": {"technique": "runtime monitor: post-order == spec(pre-order, op) across all order observers (hook walk, iter, rev, keys, values, peeks, parsed Debug)",
            "design_ref": "DESIGN.md section 5 C05", "level_note": _HIST_NOTE,
            "level_text": "Exploration with the accessed entry at every position class (LRU, MRU, middle, only) and reallocation interleaved; floors require every promoting operation at every position and order checks on lists >= 10 after a reallocation."},
    "C10": {"technique": "runtime monitor: classification/payload/atomicity oracle for insert and try_insert computed from the observed pre-state",
            "design_ref": "DESIGN.md section 5 C10", "level_note": _HIST_NOTE,
            "level_text": "Exploration with (key, value) pairs generated on both sides of each threshold (size == free, free+1, max, max+1) and satisfying several failure conditions at once; the returned pair is identified by object ids, and the cache must be bit-for-bit (logical state) unchanged on failure."},
    "C11": {"technique": "runtime monitor: mutate oracle (closure-ran flag, forwarded token, recency, hook-recorded size, minimal evictions, error payload) from the observed pre-state; lock-step sequential model over value types with and without drop glue; record == entry_size after every completed mutate incl. stale records",
            "design_ref": "DESIGN.md section 5 C11", "level_note": _HIST_NOTE,
            "level_text": "Exploration over position x {shrink, same, fits exactly, needs 1..n evictions, too large}; the recorded size inside the entry is read through the hook so a missing re-accounting is seen at the mutate itself."},
}

_MEM_NOTE = ("Trusted base as for the history checks, plus Miri (Stacked Borrows, leak check, data-race detector) and AddressSanitizer/LeakSanitizer as memory-error monitors on the paths the workloads drive. "
             "A clean run is 'no report on these executions', not memory safety.")

TEXT.update({
    "C06": {"technique": "runtime monitor: identity-level drop ledger (conservation after every event, exactly-once at the end) + LeakSanitizer/Miri leak and double-free detection",
            "design_ref": "DESIGN.md section 5 C06", "level_note": _MEM_NOTE,
            "level_text": "Exploration: unique object ids make 'which object was dropped' decidable; conservation is checked at every quiescent point, so a forgotten or doubly dropped object is reported at the faulty step with a replay."},
    "C07": {"technique": "runtime monitor: structural invariant at a hook (walk mirror, node set == buckets, lookup identity) after every event + ASan/Miri memory-error detection",
            "design_ref": "DESIGN.md sections 3.7 and 5 C07", "level_note": _MEM_NOTE + " 'Moved out of' for Copy link fields is not observable by any tool (DESIGN section 1).",
            "level_text": "Exploration with reallocation (grow and shrink, explicit and automatic) at high frequency, constant hasher included, caches from empty to thousands of entries under ASan."},
    "C08": {"technique": "runtime monitor: differential check of heap_size/value_size/mem_size and the four bulk helpers against an independently stated composition law over a generated type matrix; totality by subprocess exit status at opt-level 0",
            "design_ref": "DESIGN.md section 5 C08", "level_note": "Trusted base: the harness' own statement of the laws (memsize.rs `Spec`), rustc. Mutex/RwLock poisoning and re-entrant locking are outside C08's quantifier and not explored.",
            "level_text": "Exploration over generated values of 345 concrete nestings; element counts up to 10^7 for the totality clause (restating 'however many elements' as a bound)."},
    "C09": {"technique": "runtime monitor: counting global allocator with attribution scopes as ground truth for owned buffers",
            "design_ref": "DESIGN.md section 5 C09", "level_note": "Trusted base: the harness' global allocator wrapper (Layout::size() of every alloc/realloc/dealloc made while the value is built), std's allocation behaviour on this target (Mutex/RwLock allocate nothing on Linux).",
            "level_text": "Exploration: every relation between length and capacity at every nesting level reached by random build plans; equality is exact, so a single missed byte of spare capacity is reported."},
    "C12": {"technique": "exhaustive enumeration of next/next_back call strings per iterator kind and length, oracle from the observed pre-state; ASan + Miri on the same cases",
            "design_ref": "DESIGN.md section 5 C12", "level_note": _MEM_NOTE,
            "level_text": "Exploration, exhaustive within the stated bound (all call strings for lengths 0..=7 quick / 0..=10 thorough), random beyond it. The bound is what limits the claim."},
    "C13": {"technique": "runtime monitor: capacity inequalities/transparency/exact growth-target oracle + allocator-failure injection into try_reserve; long churn with mass-departure cycles; documented reserve refusals checked for transparency",
            "design_ref": "DESIGN.md section 5 C13", "level_note": _HIST_NOTE + " Allocation failure is injected by the harness' global allocator returning null for the k-th request of the call.",
            "level_text": "Fault enumeration for the allocator-refusal clause (each allocation index of try_reserve), exploration for the rest; long churn restated as bounded runs."},
    "C14": {"technique": "runtime monitor: clone equality + sibling-fingerprint independence after every event; ASan/Miri for shared ownership; clone under allocator refusal in sub-processes (abort accepted, a returned clone judged)",
            "design_ref": "DESIGN.md section 5 C14", "level_note": _MEM_NOTE,
            "level_text": "Exploration over a state pool (any length, order, sizes, after reallocations and tombstones) with diverging operation sequences on up to three sibling caches."},
    "C15": {"technique": "exhaustive enumeration of retain reject-subsets with predicate call log oracle; Miri on small n",
            "design_ref": "DESIGN.md section 5 C15", "level_note": _MEM_NOTE,
            "level_text": "Exploration, exhaustive within n <= 9 (quick) / 12 (thorough): every subset of entries to remove, including none, all, the ends, alternating."},
    "C16": {"technique": "fault enumeration: panic injected at the n-th user callback of every class for every (state, operation); post-panic structure gate, recorded-size sum, ledger, further use; ASan + Miri",
            "design_ref": "DESIGN.md section 5 C16", "level_note": _MEM_NOTE + " States are sampled (small random histories); the crash points of each sampled (state, operation) are exhaustive. After a panic inside mutate the further use mutates that very entry again (this is how finding D8 surfaced); refused allocations inside reserve/shrink/insert are injected alone and together with every Hash panic position.",
            "level_text": "Fault enumeration over crash points: every callback index of every callback class of each sampled (state, operation) pair; 5*10^5 injected panics per quick run natively plus sanitizer/interpreter runs on the same enumeration."},
    "C17": {"technique": "fault enumeration: mem::forget after every call-string prefix of every iterator kind; ledger + structure gate + further use; ASan (no LSan) and Miri (ignore leaks)",
            "design_ref": "DESIGN.md section 5 C17", "level_note": _MEM_NOTE,
            "level_text": "Fault enumeration: the 'fault' is the program leaking the iterator; all leak points for lengths 0..=6 (quick) / 0..=9 (thorough) are enumerated."},
    "C18": {"technique": "run-time read-out of the compile-time auto-trait table via a trait probe over a 4x4x4 witness matrix (LruCache) and a 4x4 matrix for the seven iterator types; cross-thread use (also with non-'static parameters in a separate exercise program whose failure to compile is the verdict) under Miri's race detector; auxiliary: must-not-compile programs judged by the borrow checker",
            "design_ref": "DESIGN.md section 5 C18", "level_note": "PARTIAL: the Send/Sync sentence is decided by the run-time read-out (LruCache: exact table; the seven iterator types: soundness implications). The borrowing sentence (references and borrowing iterators keep the cache borrowed) is about programs the compiler rejects; lifetimes are erased before anything runs, so runtime monitoring proper cannot witness it. As an auxiliary observation - the compiler is the only monitor there is for this sentence - 20 small programs that keep a reference, iterator, hasher or closure borrow while they mutate, move or drop the cache are compiled (package harness_neg) and each must be rejected by the borrow checker; one that is accepted is reported. This samples the sentence (one program per reference-returning method), it does not decide it for all programs.",
            "level_text": "Other: the truth table is complete for the witness matrix (64 instantiations x 2 traits); the generic 'whenever' direction is sampled by those witnesses, which is what an execution-based technique can do for a compile-time property."},
    "C19": {"technique": "MMU write trap (mprotect-ed arena) under every &self operation on 1 and 4 threads + byte hash; Miri and ThreadSanitizer race detection on reader threads",
            "design_ref": "DESIGN.md section 5 C19", "level_note": "Trusted base: the harness' arena allocator and SIGSEGV handler, the kernel's page protection; Miri/TSan as race detectors. A store whose value equals the old one can be removed by the optimiser (then the binary really does not write); the trap sees what the release build executes, Miri sees the unoptimised MIR.",
            "level_text": "Exploration over a pool of cache states (empty, single, tombstoned, just reallocated, constant hasher, up to ~50 entries; every 25th state 300-6250 entries under colliding hashers; only a read-only hook touches the cache before the protected phase) x every shared-reference operation x every key argument present or absent; because a read-only operation set cannot race, the trap decides the 'every interleaving' clause on the states explored."},
    "C20": {"technique": "runtime monitor: per-call Hash::hash counter vs bound 2 + departures (+ held on rebuild; an insertion may rebuild only to grow) from 4 to 9 M entries, incl. single calls ejecting thousands to millions of entries",
            "design_ref": "DESIGN.md section 5 C20", "level_note": _HIST_NOTE,
            "level_text": "Exploration across cache sizes; a rehash-per-access or rescan shows as a count growing with the cache size."},
})

NOT_APPLICABLE = {p: "check under construction in this revision (see DESIGN.md section 5); will be claimed once its monitor exists" for p in
                  []}
