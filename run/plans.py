"""Per-property execution plans, non-vacuity floors, evidence rules.

A job = one harness sub-command in one build mode, run as `shards` processes.
budget = work units per shard (events, cases, ...) per tier.
reports_to = properties for which a sanitizer / interpreter / crash report of this job is a verdict.
"""


def hist(profile, shards, quick, thorough, mode="native", reports_to=(), tiers=("quick", "thorough"), extra=()):
    return {"mode": mode, "cmd": "hist", "args": ["--profile", profile] + list(extra), "shards": shards,
            "budget": {"quick": quick, "thorough": thorough}, "reports_to": list(reports_to), "tiers": tiers}


MEM = ("C06", "C07", "C12", "C14", "C16", "C17")

PLANS = {
    "C01": [hist("bound", 10, 60000, 2500000), hist("evict", 2, 60000, 1500000), hist("extreme", 2, 40000, 1000000),
            hist("extreme", 2, 40000, 1000000, mode="wrap")],
    "C02": [hist("bound", 8, 60000, 2500000), hist("mutate", 3, 60000, 1500000), hist("ledger", 1, 60000, 1000000), hist("extreme", 2, 40000, 1000000),
            hist("extreme", 2, 40000, 1000000, mode="wrap")],
    "C03": [hist("evict", 14, 60000, 3000000), hist("mixed", 2, 60000, 1500000)],
    "C04": [hist("map", 12, 60000, 3000000), hist("realloc", 2, 60000, 1500000), hist("mixed", 2, 60000, 1500000)],
    "C05": [hist("order", 12, 60000, 3000000), hist("realloc", 2, 60000, 1500000), hist("mixed", 2, 60000, 1500000)],
    "C10": [hist("insert", 14, 60000, 3000000), hist("mixed", 2, 60000, 1500000)],
    "C11": [hist("mutate", 14, 60000, 3000000), hist("mixed", 2, 60000, 1500000)],
}

LEVELS = {p: "exploration" for p in ["C01", "C02", "C03", "C04", "C05", "C06", "C07", "C08", "C09", "C10", "C11", "C12", "C14", "C15", "C19", "C20"]}
LEVELS.update({"C13": "fault_enumeration", "C16": "fault_enumeration", "C17": "fault_enumeration", "C18": "other"})

# Non-vacuity floors: if the monitors did not see the situations the property is about, the run is inconclusive.
FLOORS = {
    "C01": {"evaluations": {"quick": 300000, "thorough": 10000000}, "distinct": 300, "exact_fit": 500, "one_over": 200, "grow_the_lru": 50, "limit_cur_minus_1": 50, "limit_zero": 50, "limit_max": 50},
    "C02": {"evaluations": {"quick": 300000, "thorough": 10000000}, "distinct": 100, "replacements": 1000, "reallocations": 1000, "sum:c11_class0": 200, "sum:c11_class2": 200, "sum:c11_class3": 100, "sum:c11_class4": 100},
    "C03": {"evaluations": {"quick": 300000, "thorough": 10000000}, "distinct": 200, "multi_evictions": 50, "replace_then_evict": 20, "grow_the_lru": 20, "exact_fit_evicts_nothing": 20},
    "C04": {"evaluations": {"quick": 300000, "thorough": 10000000}, "distinct": 300, "each:lookup_": 50, "reallocations": 1000, "max:const_hasher_max_len": 20},
    "C05": {"evaluations": {"quick": 300000, "thorough": 10000000}, "distinct": 100, "each:promote_": 5, "order_checked_after_realloc_len10": 100, "debug_compared": 100},
    "C10": {"evaluations": {"quick": 100000, "thorough": 3000000}, "distinct": 40, "each:c10_": 100},
    "C11": {"evaluations": {"quick": 100000, "thorough": 3000000}, "distinct": 30, "each:c11_class": 10},
}

RULES = {
    "C01": "Generated operation histories (boundary-directed sizes: exact fit, one over, k evictions; limits 0..usize::MAX; all hashers and initial capacities; an extreme sub-profile with sizes up to 2^64 in checked and wrapping arithmetic builds). After every single public call: current_size() <= max_size() and the u128 sum of entry_size over the entries the hook walk finds <= max_size(). evaluations = events checked; distinct = abstract transitions (operation kind, fit class, #departures class, limit class, hasher kind, target position) seen at least once.",
    "C02": "Same histories; after every event current_size() == u128 sum of entry_size(key,value) over held entries == sum of the sizes recorded inside the entries (hook), len() == number of entries, current_size()==0 iff is_empty(), each recorded size == entry_size of its pair. distinct = (operation kind, #departures class, target position, reallocated?, outcome, length class).",
    "C03": "Histories that keep the cache full; for each event the set of entries that left is compared with the shortest LRU prefix computed (u128) from the pre-state's recorded sizes; evicted keys' drop order must be LRU order. distinct = (operation kind, #evictions class, exact-fit/one-over, target position, key present?, hasher).",
    "C04": "Histories over tiny key universes, all hashers incl. constant, owned and borrowed key forms, reallocation anywhere; every return value and every lookup of every id after every event is compared with unique-id map semantics computed from the pre-state; untouched keys must keep their (key uid, value uid). distinct = (operation kind, target position, present?, hasher, reallocated?, length class, key form).",
    "C05": "Histories with promotions at every position and reallocation in between; after each event the order of the survivors (hook walk, iter, rev, keys, values, peek_lru/mru, parsed Debug) must equal spec(pre-order, operation). distinct = (operation kind, target position, reallocated?, length class, promoting?, #departures class).",
    "C10": "insert/try_insert with sizes aimed at both sides of every threshold; classification, payload, identity of the returned pair and 'nothing changed' computed from the pre-state. distinct = (insert|try_insert, which failure conditions hold at once, boundary hit, length class, cache exactly full?).",
    "C11": "mutate at every position with shrink / same / fits / needs k evictions / too large; closure-ran flag, forwarded token, order, recorded size (hook), evictions and error payload compared with the spec computed from the pre-state. distinct = (present?, size-change class, position, #evictions class, exact fit, length class).",
}

ASSUMPTIONS = {
    "*": ["executions only: the verdict covers the histories/cases actually run (counts above), not all inputs",
          "instrumented key/value types (TKey/TVal with declared heap sizes, unique ids) stand for arbitrary K, V",
          "the verif-hooks feature only adds a read-only walker; the library code under test is otherwise the working tree of /repo"],
    "C01": ["every single entry size is representable in usize (sums are not restricted)"],
    "C02": ["declared sizes change only inside mutate (no interior mutability)"],
}
