//! Deterministic PRNG (xorshift64* seeded through splitmix64). No external crates.

#[derive(Clone)]
pub struct Rng(u64);

pub fn splitmix(mut z: u64) -> u64 {
    z = z.wrapping_add(0x9E3779B97F4A7C15);
    z = (z ^ (z >> 30)).wrapping_mul(0xBF58476D1CE4E5B9);
    z = (z ^ (z >> 27)).wrapping_mul(0x94D049BB133111EB);
    z ^ (z >> 31)
}

pub fn mix(parts: &[u64]) -> u64 {
    let mut h = 0x243F6A8885A308D3u64;
    for p in parts {
        h = splitmix(h ^ *p);
    }
    h
}

impl Rng {
    pub fn new(seed: u64) -> Rng {
        let s = splitmix(seed);
        Rng(if s == 0 { 0x9E3779B97F4A7C15 } else { s })
    }
    pub fn next(&mut self) -> u64 {
        let mut x = self.0;
        x ^= x >> 12;
        x ^= x << 25;
        x ^= x >> 27;
        self.0 = x;
        x.wrapping_mul(0x2545F4914F6CDD1D)
    }
    /// uniform in 0..n (n == 0 gives 0)
    pub fn below(&mut self, n: u64) -> u64 {
        if n == 0 { 0 } else { self.next() % n }
    }
    pub fn usize_below(&mut self, n: usize) -> usize {
        self.below(n as u64) as usize
    }
    pub fn range(&mut self, lo: usize, hi_incl: usize) -> usize {
        if hi_incl <= lo { lo } else { lo + self.below((hi_incl - lo) as u64 + 1) as usize }
    }
    pub fn chance(&mut self, num: u64, den: u64) -> bool {
        self.below(den) < num
    }
    pub fn pick<'a, T>(&mut self, xs: &'a [T]) -> &'a T {
        &xs[self.usize_below(xs.len())]
    }
    /// weighted choice: returns index
    pub fn weighted(&mut self, w: &[u32]) -> usize {
        let total: u64 = w.iter().map(|x| *x as u64).sum();
        if total == 0 { return 0; }
        let mut r = self.below(total);
        for (i, x) in w.iter().enumerate() {
            if r < *x as u64 { return i; }
            r -= *x as u64;
        }
        w.len() - 1
    }
    pub fn shuffle<T>(&mut self, xs: &mut [T]) {
        for i in (1..xs.len()).rev() {
            let j = self.usize_below(i + 1);
            xs.swap(i, j);
        }
    }
}
