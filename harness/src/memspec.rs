//! C08: the composition laws stated independently of the library (`Spec`), and the totality cases.

#![allow(dead_code)]
use lru_mem::{HeapSize, ValueSize};
use std::collections::{BinaryHeap, HashMap, HashSet};
use std::ffi::{CStr, CString, OsString};
use std::mem::size_of;
use std::num::Wrapping;
use std::ops::{Range, RangeFrom, RangeInclusive, RangeTo, RangeToInclusive};
use std::path::{Path, PathBuf};
use std::sync::{Mutex, RwLock};

// ------------------------------------------------------------------------------ the laws, stated independently

/// heap size according to the stated composition laws (u128, no overflow)
pub trait Spec {
    fn spec_heap(&self) -> u128;
    /// does the allocator-exactness clause of C09 apply (false below a HashMap/HashSet, which only have bounds)
    fn exact(&self) -> bool { true }
    /// bytes the law attributes to hash tables' own buffers in this value (lower bound part for C09)
    fn name() -> String where Self: Sized { std::any::type_name::<Self>().replace("alloc::", "").replace("std::", "").replace("core::", "").replace("string::", "").replace("vec::", "").replace("boxed::", "") }
}

/// user-defined leaf types: a zero-sized handle that owns memory elsewhere (e.g. a page of a global arena), and a
/// type with an arbitrary declared heap size. The laws of C08 hold for any HeapSize leaf, not only for std types.
pub struct ZstHeap;
impl HeapSize for ZstHeap { fn heap_size(&self) -> usize { 4096 } }
impl Spec for ZstHeap { fn spec_heap(&self) -> u128 { 4096 } }
pub struct Declared(pub u32);
impl HeapSize for Declared { fn heap_size(&self) -> usize { self.0 as usize } }
impl Spec for Declared { fn spec_heap(&self) -> u128 { self.0 as u128 } }

/// A user-defined leaf whose bulk helpers are overridden in a legal but unusual way: they first pull items with
/// `next()` / `skip_while` and only then fold the rest. The result is always the element-wise sum.
pub struct Picky(pub u32);
impl HeapSize for Picky {
    fn heap_size(&self) -> usize { self.0 as usize }
    fn heap_size_sum_iter<'item, Fun, Iter>(make_iter: Fun) -> usize
    where Self: 'item, Fun: Fn() -> Iter, Iter: Iterator<Item = &'item Self> {
        let mut it = make_iter().skip_while(|p| p.0 == 0);
        let first = it.next().map(|p| p.0 as usize).unwrap_or(0);
        first + it.map(|p| p.0 as usize).sum::<usize>()
    }
    fn heap_size_sum_exact_size_iter<'item, Fun, Iter>(make_iter: Fun) -> usize
    where Self: 'item, Fun: Fn() -> Iter, Iter: ExactSizeIterator<Item = &'item Self> {
        let mut it = make_iter();
        let n = it.len();
        let first = it.next().map(|p| p.0 as usize).unwrap_or(0);
        let second = if n > 4 { it.next().map(|p| p.0 as usize).unwrap_or(0) } else { 0 };
        // an ExactSizeIterator knows how many items are LEFT at any time, and a user's override may rely on that: the
        // remainder is pre-sized from len() and size_hint(); a wrong answer shows as a wrong sum
        let (left, hint) = (it.len(), it.size_hint());
        let rest: Vec<usize> = it.map(|p| p.0 as usize).collect();
        let penalty = if rest.len() != left || hint != (rest.len(), Some(rest.len())) { 1_000_003 * (1 + left.abs_diff(rest.len())) } else { 0 };
        first + second + rest.iter().sum::<usize>() + penalty
    }
}
impl Spec for Picky { fn spec_heap(&self) -> u128 { self.0 as u128 } }

macro_rules! leaf { ($($t:ty),*) => { $( impl Spec for $t { fn spec_heap(&self) -> u128 { 0 } } )* } }
leaf!((), u8, u16, u32, u64, u128, usize, i8, i16, i32, i64, f32, f64, bool, char, str, CStr, Path, std::ffi::OsStr,
      std::time::Duration, std::cmp::Ordering, std::net::Ipv4Addr, std::num::NonZeroU32, std::ops::RangeFull, std::collections::hash_map::RandomState);
impl<T> Spec for std::marker::PhantomData<T> { fn spec_heap(&self) -> u128 { 0 } }
impl<T: ?Sized> Spec for &T { fn spec_heap(&self) -> u128 { 0 } }

impl<T: Spec> Spec for [T] { fn spec_heap(&self) -> u128 { self.iter().map(|x| x.spec_heap()).sum() } fn exact(&self) -> bool { self.iter().all(|x| x.exact()) } }
impl<T: Spec, const N: usize> Spec for [T; N] { fn spec_heap(&self) -> u128 { self.iter().map(|x| x.spec_heap()).sum() } fn exact(&self) -> bool { self.iter().all(|x| x.exact()) } }
impl<T: Spec> Spec for Vec<T> {
    fn spec_heap(&self) -> u128 { self.capacity() as u128 * size_of::<T>() as u128 + self.iter().map(|x| x.spec_heap()).sum::<u128>() }
    fn exact(&self) -> bool { self.iter().all(|x| x.exact()) }
}
impl<T: Spec + ?Sized> Spec for Box<T> {
    fn spec_heap(&self) -> u128 { std::mem::size_of_val::<T>(&**self) as u128 + (**self).spec_heap() }
    fn exact(&self) -> bool { (**self).exact() }
}
impl Spec for String { fn spec_heap(&self) -> u128 { self.capacity() as u128 } }
impl Spec for OsString { fn spec_heap(&self) -> u128 { self.capacity() as u128 } }
impl Spec for PathBuf { fn spec_heap(&self) -> u128 { self.capacity() as u128 } }
impl Spec for CString { fn spec_heap(&self) -> u128 { self.as_bytes_with_nul().len() as u128 } }
impl<T: Spec> Spec for Option<T> { fn spec_heap(&self) -> u128 { self.as_ref().map(|x| x.spec_heap()).unwrap_or(0) } fn exact(&self) -> bool { self.as_ref().map(|x| x.exact()).unwrap_or(true) } }
impl<T: Spec, E: Spec> Spec for Result<T, E> {
    fn spec_heap(&self) -> u128 { match self { Ok(x) => x.spec_heap(), Err(e) => e.spec_heap() } }
    fn exact(&self) -> bool { match self { Ok(x) => x.exact(), Err(e) => e.exact() } }
}
impl<T: Spec> Spec for Wrapping<T> { fn spec_heap(&self) -> u128 { self.0.spec_heap() } fn exact(&self) -> bool { self.0.exact() } }
impl<T: Spec> Spec for Range<T> { fn spec_heap(&self) -> u128 { self.start.spec_heap() + self.end.spec_heap() } }
impl<T: Spec> Spec for RangeFrom<T> { fn spec_heap(&self) -> u128 { self.start.spec_heap() } }
impl<T: Spec> Spec for RangeTo<T> { fn spec_heap(&self) -> u128 { self.end.spec_heap() } }
impl<T: Spec> Spec for RangeToInclusive<T> { fn spec_heap(&self) -> u128 { self.end.spec_heap() } }
impl<T: Spec> Spec for RangeInclusive<T> { fn spec_heap(&self) -> u128 { self.start().spec_heap() + self.end().spec_heap() } }
impl<T: Spec> Spec for Mutex<T> { fn spec_heap(&self) -> u128 { self.lock().unwrap().spec_heap() } fn exact(&self) -> bool { self.lock().unwrap().exact() } }
impl<T: Spec> Spec for RwLock<T> { fn spec_heap(&self) -> u128 { self.read().unwrap().spec_heap() } fn exact(&self) -> bool { self.read().unwrap().exact() } }
impl<K: Spec, V: Spec> Spec for HashMap<K, V> {
    fn spec_heap(&self) -> u128 { self.capacity() as u128 * size_of::<(K, V)>() as u128 + self.iter().map(|(k, v)| k.spec_heap() + v.spec_heap()).sum::<u128>() }
    fn exact(&self) -> bool { false }
}
impl<T: Spec> Spec for HashSet<T> {
    fn spec_heap(&self) -> u128 { self.capacity() as u128 * size_of::<T>() as u128 + self.iter().map(|x| x.spec_heap()).sum::<u128>() }
    fn exact(&self) -> bool { false }
}
impl<T: Spec + Ord> Spec for BinaryHeap<T> {
    fn spec_heap(&self) -> u128 { self.capacity() as u128 * size_of::<T>() as u128 + self.iter().map(|x| x.spec_heap()).sum::<u128>() }
    fn exact(&self) -> bool { self.iter().all(|x| x.exact()) }
}
macro_rules! tuple_spec { ($( ($($n:ident $i:tt),+) ),+) => { $( impl<$($n: Spec),+> Spec for ($($n,)+) {
    fn spec_heap(&self) -> u128 { 0 $(+ self.$i.spec_heap())+ }
    fn exact(&self) -> bool { true $(&& self.$i.exact())+ }
} )+ } }
tuple_spec!((A 0), (A 0, B 1), (A 0, B 1, C 2), (A 0, B 1, C 2, D 3), (A 0, B 1, C 2, D 3, E 4), (A 0, B 1, C 2, D 3, E 4, F 5),
    (A 0, B 1, C 2, D 3, E 4, F 5, G 6), (A 0, B 1, C 2, D 3, E 4, F 5, G 6, H 7), (A 0, B 1, C 2, D 3, E 4, F 5, G 6, H 7, I 8),
    (A 0, B 1, C 2, D 3, E 4, F 5, G 6, H 7, I 8, J 9));

// ------------------------------------------------------------------------------ totality (run in a subprocess)

/// One totality case: builds a big input and estimates its size. Returns a description and the result.
pub fn totality_case(case: u64, n: usize) -> Option<(String, u128, u128)> {
    fn strs(n: usize) -> Vec<String> { (0..n).map(|i| if i % 3 == 0 { String::with_capacity(3) } else { String::new() }).collect() }
    Some(match case {
        0 => { let v: Vec<[String; 0]> = (0..n).map(|_| []).collect(); ("Vec<[String; 0]>.heap_size()".into(), v.heap_size() as u128, v.spec_heap()) }
        1 => { let v: Vec<[u8; 0]> = vec![[]; n]; ("Vec<[u8; 0]>.heap_size()".into(), v.heap_size() as u128, v.spec_heap()) }
        2 => { let v: Vec<[[String; 0]; 3]> = (0..n).map(|_| [[], [], []]).collect(); ("Vec<[[String; 0]; 3]>.heap_size()".into(), v.heap_size() as u128, v.spec_heap()) }
        3 => { let v: Vec<()> = vec![(); n * 10]; ("Vec<()>.heap_size()".into(), v.heap_size() as u128, v.spec_heap()) }
        4 => { let v: Vec<Vec<u8>> = (0..n).map(|i| Vec::with_capacity(i % 4)).collect(); ("Vec<Vec<u8>>.heap_size()".into(), v.heap_size() as u128, v.spec_heap()) }
        5 => { let v: Vec<(String,)> = strs(n).into_iter().map(|s| (s,)).collect(); ("Vec<(String,)>.heap_size()".into(), v.heap_size() as u128, v.spec_heap()) }
        6 => { let v: Vec<Box<[u8]>> = (0..n).map(|i| vec![0u8; i % 3].into_boxed_slice()).collect(); ("Vec<Box<[u8]>>.heap_size()".into(), v.heap_size() as u128, v.spec_heap()) }
        7 => { let v: Box<[[String; 0]]> = (0..n).map(|_| []).collect::<Vec<_>>().into_boxed_slice(); ("Box<[[String; 0]]>.heap_size()".into(), v.heap_size() as u128, v.spec_heap()) }
        8 => { let v: Vec<[String; 1]> = strs(n).into_iter().map(|s| [s]).collect(); ("Vec<[String; 1]>.heap_size()".into(), v.heap_size() as u128, v.spec_heap()) }
        9 => { let v: Vec<[String; 0]> = (0..n).map(|_| []).collect(); ("<[String; 0]>::heap_size_sum_exact_size_iter".into(), <[String; 0]>::heap_size_sum_exact_size_iter(|| v.iter()) as u128, 0) }
        10 => { let v: Vec<[String; 0]> = (0..n).map(|_| []).collect(); ("<[String; 0]>::heap_size_sum_iter (filtered)".into(), <[String; 0]>::heap_size_sum_iter(|| v.iter().filter(|_| true)) as u128, 0) }
        11 => { let v: Vec<[String; 3]> = (0..n / 4).map(|i| [String::new(), String::with_capacity(i % 5), String::new()]).collect(); ("Vec<[String; 3]>.heap_size()".into(), v.heap_size() as u128, v.spec_heap()) }
        12 => { let v: Vec<Option<[String; 0]>> = (0..n).map(|i| if i % 2 == 0 { Some([]) } else { None }).collect(); ("Vec<Option<[String; 0]>>.heap_size()".into(), v.heap_size() as u128, v.spec_heap()) }
        13 => { let mut m: HashMap<u32, [String; 0]> = HashMap::new(); for i in 0..(n / 10) as u32 { m.insert(i, []); } ("HashMap<u32, [String; 0]>.heap_size()".into(), m.heap_size() as u128, m.spec_heap()) }
        14 => { let v: Vec<[[u8; 0]; 0]> = vec![[]; n]; ("Vec<[[u8; 0]; 0]>.heap_size()".into(), v.heap_size() as u128, v.spec_heap()) }
        15 => { let v: Vec<String> = strs(n); ("String::value_size_sum_iter (count)".into(), String::value_size_sum_iter(v.iter().filter(|_| true)) as u128, (v.len() * size_of::<String>()) as u128) }
        16 => { let mut v: Vec<[String; 0]> = Vec::new(); let mut w: Vec<[String; 2]> = Vec::new(); for i in 0..n / 2 { v.push([]); w.push([String::new(), String::with_capacity(i % 2)]); } let t = (v, w); ("(Vec<[String; 0]>, Vec<[String; 2]>).heap_size()".into(), t.heap_size() as u128, t.spec_heap()) }
        17 => { let v: BinaryHeap<[u8; 0]> = vec![[]; n].into(); ("BinaryHeap<[u8; 0]>.heap_size()".into(), v.heap_size() as u128, v.spec_heap()) }
        // zero-sized elements in astronomic numbers cost nothing to build: lengths near usize::MAX, several slices per call
        18 => { let mk = || -> Box<[()]> { let mut v: Vec<()> = Vec::new(); unsafe { v.set_len(usize::MAX) }; v.into_boxed_slice() }; let v: Vec<Box<[()]>> = vec![mk(), mk(), mk()]; let want = (v.capacity() * size_of::<Box<[()]>>()) as u128; ("Vec<Box<[()]>> of three slices of usize::MAX units .heap_size()".into(), v.heap_size() as u128, want) }
        19 => { let mk = || -> Box<[()]> { let mut v: Vec<()> = Vec::new(); unsafe { v.set_len(usize::MAX) }; v.into_boxed_slice() }; let a: [Box<[()]>; 2] = [mk(), mk()]; ("[Box<[()]>; 2] of usize::MAX units each .mem_size()".into(), lru_mem::MemSize::mem_size(&a) as u128, (2 * size_of::<Box<[()]>>()) as u128) }
        20 => { let mk = || -> Box<[()]> { let mut v: Vec<()> = Vec::new(); unsafe { v.set_len(usize::MAX / 2 + 7) }; v.into_boxed_slice() }; let bs = [mk(), mk(), mk()]; let got = <[()]>::value_size_sum_iter(bs.iter().map(|b| &**b)) as u128 + <[()]>::value_size_sum_exact_size_iter(bs.iter().map(|b| &**b)) as u128 + <[()]>::heap_size_sum_iter(|| bs.iter().map(|b| &**b)) as u128; ("<[()]>::{value,heap}_size_sum_* over three slices of usize::MAX/2+7 units".into(), got, 0) }
        _ => return None,
    })
}
