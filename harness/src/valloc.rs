//! Global allocator of the harness: pass-through to System with (1) per-thread byte
//! attribution scopes (C09), (2) per-thread failure injection (C13), (3) an mmap arena
//! that can be made read-only with mprotect (C19; native builds only).

use std::alloc::{GlobalAlloc, Layout, System};
use std::cell::Cell;

pub struct VAlloc;

thread_local! {
    static ATTR_ON: Cell<bool> = const { Cell::new(false) };
    static ATTR_BYTES: Cell<i64> = const { Cell::new(0) };
    static ATTR_ALLOCS: Cell<u64> = const { Cell::new(0) };
    // fail the n-th allocation request from now on (1-based); 0 = off
    static FAIL_AT: Cell<u64> = const { Cell::new(0) };
    static FAILED: Cell<u64> = const { Cell::new(0) };
    static COUNT_ON: Cell<bool> = const { Cell::new(false) };
    static ALLOC_COUNT: Cell<u64> = const { Cell::new(0) };
}

#[inline]
fn note_alloc(size: usize) -> bool {
    // returns false if this request must fail
    let mut ok = true;
    let _ = COUNT_ON.try_with(|c| {
        if c.get() {
            let _ = ALLOC_COUNT.try_with(|a| a.set(a.get() + 1));
        }
    });
    let _ = FAIL_AT.try_with(|f| {
        let n = f.get();
        // (a panic that has started formats its message on the heap before any hook runs: never refuse that)
        if n > 0 && !std::thread::panicking() {
            f.set(n - 1);
            if n == 1 {
                ok = false;
                let _ = FAILED.try_with(|x| x.set(x.get() + 1));
            }
        }
    });
    if ok {
        let _ = ATTR_ON.try_with(|on| {
            if on.get() {
                let _ = ATTR_BYTES.try_with(|b| b.set(b.get() + size as i64));
                let _ = ATTR_ALLOCS.try_with(|b| b.set(b.get() + 1));
            }
        });
    }
    ok
}

#[inline]
fn note_free(size: usize) {
    let _ = ATTR_ON.try_with(|on| {
        if on.get() {
            let _ = ATTR_BYTES.try_with(|b| b.set(b.get() - size as i64));
        }
    });
}

unsafe impl GlobalAlloc for VAlloc {
    unsafe fn alloc(&self, layout: Layout) -> *mut u8 {
        if !note_alloc(layout.size()) { return std::ptr::null_mut(); }
        #[cfg(all(not(miri), not(feature = "noarena")))]
        { if arena::mode() == arena::MODE_ARENA { return arena::bump(layout); } }
        System.alloc(layout)
    }
    unsafe fn alloc_zeroed(&self, layout: Layout) -> *mut u8 {
        if !note_alloc(layout.size()) { return std::ptr::null_mut(); }
        #[cfg(all(not(miri), not(feature = "noarena")))]
        { if arena::mode() == arena::MODE_ARENA { return arena::bump(layout); /* fresh anonymous pages are zero */ } }
        System.alloc_zeroed(layout)
    }
    unsafe fn dealloc(&self, ptr: *mut u8, layout: Layout) {
        note_free(layout.size());
        #[cfg(all(not(miri), not(feature = "noarena")))]
        { if arena::contains(ptr as usize) { return; } }
        System.dealloc(ptr, layout)
    }
    unsafe fn realloc(&self, ptr: *mut u8, layout: Layout, new_size: usize) -> *mut u8 {
        if !note_alloc(new_size) { return std::ptr::null_mut(); }
        note_free(layout.size());
        #[cfg(all(not(miri), not(feature = "noarena")))]
        {
            if arena::contains(ptr as usize) || arena::mode() == arena::MODE_ARENA {
                let new_layout = Layout::from_size_align_unchecked(new_size, layout.align());
                let np = if arena::mode() == arena::MODE_ARENA { arena::bump(new_layout) } else { System.alloc(new_layout) };
                if !np.is_null() {
                    std::ptr::copy_nonoverlapping(ptr, np, layout.size().min(new_size));
                    if !arena::contains(ptr as usize) { System.dealloc(ptr, layout); }
                }
                return np;
            }
        }
        System.realloc(ptr, layout, new_size)
    }
}

// ---- attribution scope (C09)
pub fn attr_begin() { ATTR_BYTES.with(|b| b.set(0)); ATTR_ALLOCS.with(|b| b.set(0)); ATTR_ON.with(|o| o.set(true)); }
pub fn attr_pause() { ATTR_ON.with(|o| o.set(false)); }
pub fn attr_resume() { ATTR_ON.with(|o| o.set(true)); }
pub fn attr_bytes() -> i64 { ATTR_BYTES.with(|b| b.get()) }
pub fn attr_end() -> i64 { ATTR_ON.with(|o| o.set(false)); ATTR_BYTES.with(|b| b.get()) }

// ---- failure injection (C13)
pub fn fail_nth(n: u64) { FAILED.with(|f| f.set(0)); FAIL_AT.with(|f| f.set(n)); }
/// a panic is starting: its own machinery (payload string, backtrace) must not be refused memory
pub fn fail_suspend() { FAIL_AT.with(|f| f.set(0)); }
/// allocations of the harness' own bookkeeping made while the library runs are never the ones refused
pub fn own<R>(f: impl FnOnce() -> R) -> R {
    let saved = FAIL_AT.try_with(|x| x.replace(0)).unwrap_or(0);
    let r = f();
    if saved > 0 { let _ = FAIL_AT.try_with(|x| x.set(saved)); }
    r
}
pub fn fail_off() -> u64 { FAIL_AT.with(|f| f.set(0)); FAILED.with(|f| f.get()) }
pub fn count_begin() { ALLOC_COUNT.with(|a| a.set(0)); COUNT_ON.with(|c| c.set(true)); }
pub fn count_end() -> u64 { COUNT_ON.with(|c| c.set(false)); ALLOC_COUNT.with(|a| a.get()) }

// ---- arena + MMU write trap (C19)
#[cfg(all(not(miri), not(feature = "noarena")))]
pub mod arena {
    use std::alloc::Layout;
    use std::sync::atomic::{AtomicU8, AtomicUsize, Ordering};

    pub const MODE_SYSTEM: u8 = 0;
    pub const MODE_ARENA: u8 = 1;
    const SIZE: usize = 1 << 30;
    const PAGE: usize = 4096;

    static MODE: AtomicU8 = AtomicU8::new(MODE_SYSTEM);
    static BASE: AtomicUsize = AtomicUsize::new(0);
    static USED: AtomicUsize = AtomicUsize::new(0);
    static PROTECTED_LEN: AtomicUsize = AtomicUsize::new(0);

    extern "C" {
        fn mmap(addr: *mut u8, len: usize, prot: i32, flags: i32, fd: i32, off: i64) -> *mut u8;
        fn mprotect(addr: *mut u8, len: usize, prot: i32) -> i32;
        fn sigaction(sig: i32, act: *const SigAction, old: *mut SigAction) -> i32;
        fn sigaltstack(ss: *const StackT, old: *mut StackT) -> i32;
        fn write(fd: i32, buf: *const u8, n: usize) -> isize;
        fn _exit(code: i32) -> !;
    }
    const PROT_READ: i32 = 1;
    const PROT_WRITE: i32 = 2;
    const MAP_PRIVATE: i32 = 2;
    const MAP_ANONYMOUS: i32 = 0x20;
    const MAP_NORESERVE: i32 = 0x4000;
    const SIGSEGV: i32 = 11;
    const SA_SIGINFO: i32 = 4;
    const SA_ONSTACK: i32 = 0x08000000;

    #[repr(C)]
    struct SigAction { handler: usize, mask: [u64; 16], flags: i32, restorer: usize }
    #[repr(C)]
    struct StackT { sp: *mut u8, flags: i32, size: usize }
    #[repr(C)]
    struct SigInfo { signo: i32, errno: i32, code: i32, _pad: i32, addr: usize }

    #[inline] pub fn mode() -> u8 { MODE.load(Ordering::Relaxed) }
    #[inline] pub fn contains(p: usize) -> bool { let b = BASE.load(Ordering::Relaxed); b != 0 && p >= b && p < b + SIZE }
    pub fn used() -> usize { USED.load(Ordering::Relaxed) }
    pub fn base() -> usize { BASE.load(Ordering::Relaxed) }

    pub fn init() {
        if BASE.load(Ordering::Relaxed) != 0 { return; }
        unsafe {
            let p = mmap(std::ptr::null_mut(), SIZE, PROT_READ | PROT_WRITE, MAP_PRIVATE | MAP_ANONYMOUS | MAP_NORESERVE, -1, 0);
            if p as isize == -1 || p.is_null() { panic!("arena mmap failed"); }
            BASE.store(p as usize, Ordering::SeqCst);
        }
    }

    pub unsafe fn bump(layout: Layout) -> *mut u8 {
        let base = BASE.load(Ordering::Relaxed);
        let align = layout.align().max(16);
        loop {
            let cur = USED.load(Ordering::Relaxed);
            let start = (base + cur + align - 1) & !(align - 1);
            let end = start + layout.size().max(1) - base;
            if end > SIZE { return std::ptr::null_mut(); }
            if USED.compare_exchange(cur, end, Ordering::SeqCst, Ordering::Relaxed).is_ok() {
                return start as *mut u8;
            }
        }
    }

    /// all allocations (of every thread) go to the arena from now on
    pub fn enter() { init(); MODE.store(MODE_ARENA, Ordering::SeqCst); }
    /// back to the system allocator; arena memory stays valid and is never reused
    pub fn leave() { MODE.store(MODE_SYSTEM, Ordering::SeqCst); }

    /// make the used part of the arena read-only
    pub fn protect() {
        let len = (USED.load(Ordering::SeqCst) + PAGE - 1) & !(PAGE - 1);
        if len == 0 { return; }
        unsafe { if mprotect(base() as *mut u8, len, PROT_READ) != 0 { panic!("mprotect failed"); } }
        PROTECTED_LEN.store(len, Ordering::SeqCst);
    }
    pub fn unprotect() {
        let len = PROTECTED_LEN.swap(0, Ordering::SeqCst);
        if len == 0 { return; }
        unsafe { if mprotect(base() as *mut u8, len, PROT_READ | PROT_WRITE) != 0 { panic!("mprotect failed"); } }
    }
    /// forget the arena contents (they are leaked on purpose); continue after the protected prefix on a fresh page
    pub fn reset_after_leak() {
        let used = (USED.load(Ordering::SeqCst) + PAGE - 1) & !(PAGE - 1);
        USED.store(used, Ordering::SeqCst);
    }
    /// FNV over the used bytes
    pub fn byte_hash(from: usize, to: usize) -> u64 {
        let mut h: u64 = 0xcbf29ce484222325;
        let b = base();
        unsafe {
            let mut p = (b + from) as *const u64;
            let end = (b + (to & !7)) as *const u64;
            while p < end { h = (h ^ std::ptr::read_volatile(p)).wrapping_mul(0x100000001b3); p = p.add(1); }
        }
        h
    }

    fn put(s: &[u8]) { unsafe { write(1, s.as_ptr(), s.len()); } }
    fn put_hex(mut v: usize) {
        let mut buf = [0u8; 18]; buf[0] = b'0'; buf[1] = b'x';
        for i in (2..18).rev() { let d = (v & 15) as u8; buf[i] = if d < 10 { b'0' + d } else { b'a' + d - 10 }; v >>= 4; }
        put(&buf);
    }

    extern "C" fn on_segv(_sig: i32, info: *const SigInfo, _ctx: *const u8) {
        let addr = unsafe { (*info).addr };
        put(b"\nWRITE-TRAP addr=");
        put_hex(addr);
        put(if contains(addr) { b" in_arena=1\n" } else { b" in_arena=0\n" });
        unsafe { _exit(if contains(addr) { 77 } else { 78 }) }
    }

    pub fn install_trap() {
        unsafe {
            let stack = mmap(std::ptr::null_mut(), 1 << 16, PROT_READ | PROT_WRITE, MAP_PRIVATE | MAP_ANONYMOUS, -1, 0);
            let st = StackT { sp: stack, flags: 0, size: 1 << 16 };
            sigaltstack(&st, std::ptr::null_mut());
            let act = SigAction { handler: on_segv as usize, mask: [0; 16], flags: SA_SIGINFO | SA_ONSTACK, restorer: 0 };
            if sigaction(SIGSEGV, &act, std::ptr::null_mut()) != 0 { panic!("sigaction failed"); }
        }
    }
}
