//! lruverif_ms: the size-estimation checks (C08 / C09). A separate binary because the type matrix is slow to compile.

use lruverif::json::J;
use lruverif::*;

#[path = "../memspec.rs"]
mod memspec;
#[path = "../memsize.rs"]
mod memsize;

#[global_allocator]
static GLOBAL: valloc::VAlloc = valloc::VAlloc;

fn main() {
    let args = Args::parse();
    quiet_panics();
    match args.cmd.as_str() {
        "memsize" => {
            let nsh = args.u64("nshards", 1).max(1);
            let ms = memsize::run_memsize(args.u64("seed", 0), args.u64("rounds", 200), if nsh > 1 { Some((args.u64("shard", 0), nsh)) } else { None });
            let mut out = engine::RunOut::new();
            out.stats = ms.stats;
            for v in &ms.viols { *out.viol_counts.entry(v.prop).or_insert(0) += 1; }
            let mut j = stats_json(&out).set("cmd", J::s("memsize"));
            if let J::Obj(o) = &mut j { o.retain(|(k, _)| k != "failures"); }
            j.put("failures", J::Arr(ms.viols.iter().map(|v| J::obj().set("property", J::s(v.prop)).set("signature", J::s(&v.sig)).set("message", J::s(&v.msg)).set("kind", J::s("memsize"))).collect()));
            j.put("types", J::Arr(ms.per_type.iter().map(|(n, c)| J::obj().set("type", J::s(n)).set("values", J::u(*c))).collect()));
            emit(&args, j);
        }
        "memsize_total" => {
            // one totality case per process: the verdict is the exit status (stack overflow aborts the process)
            let case = args.u64("case", 0); let n = args.u64("n", 1_000_000) as usize;
            let small = args.str("thread", "main") == "small";
            let run = move || match memspec::totality_case(case, n) { Some((what, got, want)) => println!("TOTAL-OK case={} n={} {} = {} (law: {})", case, n, what, got, want), None => println!("TOTAL-NONE case={}", case) };
            if small { std::thread::Builder::new().spawn(run).unwrap().join().unwrap(); } else { run(); }
        }
        _ => { eprintln!("usage: lruverif_ms <memsize|memsize_total> [--key value]..."); std::process::exit(2); }
    }
}
