//! lruverif: runtime monitors for lru-mem (library part shared by the binaries).

pub mod aliaskeys;
pub mod engine;
pub mod enumr;
pub mod gen;
pub mod inject;
pub mod json;
pub mod modelrun;
pub mod obs;
pub mod ops;
pub mod oracle;
pub mod rng;
pub mod scale;
pub mod sharedref;
pub mod types;
pub mod typevar;
pub mod valloc;

use json::J;
use std::collections::HashMap;

pub struct Args { pub cmd: String, pub kv: HashMap<String, String> }

impl Args {
    pub fn parse() -> Args {
        let mut it = std::env::args().skip(1);
        let cmd = it.next().unwrap_or_else(|| "help".to_string());
        let mut kv = HashMap::new();
        let rest: Vec<String> = it.collect();
        let mut i = 0;
        while i < rest.len() {
            if let Some(k) = rest[i].strip_prefix("--") {
                if let Some((a, b)) = k.split_once('=') { kv.insert(a.to_string(), b.to_string()); }
                else if i + 1 < rest.len() && !rest[i + 1].starts_with("--") { kv.insert(k.to_string(), rest[i + 1].clone()); i += 1; }
                else { kv.insert(k.to_string(), "1".to_string()); }
            }
            i += 1;
        }
        Args { cmd, kv }
    }
    pub fn u64(&self, k: &str, d: u64) -> u64 { self.kv.get(k).and_then(|v| v.parse().ok()).unwrap_or(d) }
    pub fn str(&self, k: &str, d: &str) -> String { self.kv.get(k).cloned().unwrap_or_else(|| d.to_string()) }
}

pub fn stats_json(out: &engine::RunOut) -> J {
    let st = &out.stats;
    let mut j = J::obj();
    j.put("events", J::u(st.events));
    j.put("histories", J::u(st.histories));
    j.put("evals", J::Obj(st.evals.iter().map(|(k, v)| (k.to_string(), J::u(*v))).collect()));
    j.put("distinct", J::Obj(st.distinct.iter().map(|(k, v)| (k.to_string(), J::Arr(v.iter().map(|x| J::Str(format!("{:x}", x))).collect()))).collect()));
    j.put("counters", J::map_u64(&st.counters));
    j.put("maxima", J::map_u64(&st.maxima));
    j.put("samples", J::Obj(st.samples.iter().map(|(k, v)| (k.to_string(), J::strs(v.iter().cloned()))).collect()));
    j.put("failures", J::Arr(out.failures.iter().map(|f| f.to_json()).collect()));
    j.put("viol_counts", J::Obj(out.viol_counts.iter().map(|(k, v)| (k.to_string(), J::u(*v))).collect()));
    j.put("gate_broken_histories", J::u(out.gate_broken_histories));
    j
}

pub fn emit(args: &Args, j: J) {
    let s = j.to_string();
    if let Some(p) = args.kv.get("out") { std::fs::write(p, &s).expect("write result"); }
    println!("RESULT {}", s);
}

pub fn quiet_panics() {
    // expected panics (injected ones, documented ones) are part of the workloads; keep stderr readable
    std::panic::set_hook(Box::new(|info| {
        valloc::fail_suspend();
        let msg = info.to_string();
        if std::env::var("LRUVERIF_SHOW_PANICS").is_ok() { eprintln!("[panic] {}", msg); }
    }));
}

