//! Boundary-directed workload generation: every choice is made from the currently
//! observed state so that thresholds (exact fit, one over, k evictions, ...) are hit.

use crate::obs::Obs;
use crate::ops::*;
use crate::rng::Rng;

#[derive(Clone, Debug)]
pub struct HistCfg {
    /// 0..=3 TH kinds, 4 = hashbrown DefaultHashBuilder
    pub hk: u8,
    pub cap0: Option<usize>,
    pub max: usize,
    pub universe: u32,
    pub events: usize,
    pub extreme: bool,
}

impl HistCfg {
    pub fn to_text(&self) -> String {
        format!("cfg hk={} cap0={} max={} universe={} extreme={}", self.hk, match self.cap0 { None => "none".to_string(), Some(c) => c.to_string() }, self.max, self.universe, self.extreme as u8)
    }
    pub fn from_text(s: &str) -> Result<HistCfg, String> {
        let mut c = HistCfg { hk: 3, cap0: None, max: 1000, universe: 8, events: 0, extreme: false };
        for t in s.split_whitespace().skip(1) {
            let (k, v) = t.split_once('=').ok_or(format!("bad cfg token {}", t))?;
            match k {
                "hk" => c.hk = v.parse().map_err(|_| "hk")?,
                "cap0" => c.cap0 = if v == "none" { None } else { Some(v.parse().map_err(|_| "cap0")?) },
                "max" => c.max = v.parse().map_err(|_| "max")?,
                "universe" => c.universe = v.parse().map_err(|_| "universe")?,
                "extreme" => c.extreme = v == "1",
                _ => {}
            }
        }
        Ok(c)
    }
}

/// Relative weights of operation groups and workload shape.
#[derive(Clone, Debug)]
pub struct Profile {
    pub name: &'static str,
    pub w_insert: u32,
    pub w_try_insert: u32,
    pub w_promote: u32,   // get / get_entry / touch / get_lru
    pub w_peek: u32,      // peek / peek_entry / contains / peek_lru / peek_mru / scalars
    pub w_remove: u32,
    pub w_mutate: u32,
    pub w_set_max: u32,
    pub w_retain: u32,
    pub w_capacity: u32,
    pub w_alloc_fail: u32,
    pub w_clear: u32,
    pub w_iterate: u32,
    pub w_debug: u32,
    pub w_clone: u32,     // clone / switch / drop_cache / into
    pub universe: (u32, u32),
    pub events: (usize, usize),
    /// how many entries the limit is sized for
    pub fill: (usize, usize),
    /// per-mille of histories in the extreme size domain
    pub extreme_permille: u64,
    /// per-mille of size choices that are plain random (the rest are boundary-directed)
    pub random_size_permille: u64,
    pub default_hasher_permille: u64,
    /// large populations: no size choices that evict (nearly) everything at once
    pub gentle: bool,
}

pub fn profile(name: &str) -> Profile {
    let base = Profile {
        name: "mixed", w_insert: 24, w_try_insert: 6, w_promote: 10, w_peek: 8, w_remove: 8, w_mutate: 12, w_set_max: 4, w_retain: 3,
        w_capacity: 6, w_alloc_fail: 1, w_clear: 1, w_iterate: 4, w_debug: 1, w_clone: 3,
        universe: (3, 16), events: (20, 220), fill: (1, 10), extreme_permille: 0, random_size_permille: 350, default_hasher_permille: 120, gentle: false,
    };
    match name {
        // C01/C02: size classes, mutate compositions, limits at both ends
        "bound" => Profile { name: "bound", w_mutate: 20, w_set_max: 8, w_insert: 26, extreme_permille: 120, ..base },
        // C03: keep the cache full, aim at k-eviction thresholds
        "evict" => Profile { name: "evict", w_insert: 34, w_mutate: 22, w_set_max: 8, w_remove: 3, w_clear: 0, w_retain: 1, w_iterate: 1, w_clone: 1, w_capacity: 2, fill: (3, 14), random_size_permille: 150, ..base },
        // C04: small universes, tombstone churn, both key forms
        "map" => Profile { name: "map", w_insert: 26, w_remove: 18, w_promote: 14, w_peek: 14, w_capacity: 8, w_mutate: 4, universe: (3, 24), fill: (4, 40), ..base },
        // C05: order, long lists, reallocation in between
        "order" => Profile { name: "order", w_promote: 22, w_peek: 10, w_debug: 3, w_capacity: 10, w_iterate: 6, w_mutate: 10, universe: (4, 40), fill: (4, 60), ..base },
        // C06: every way of ending, owning iterators
        "ledger" => Profile { name: "ledger", w_iterate: 8, w_clone: 8, w_retain: 5, w_clear: 2, w_remove: 10, events: (10, 120), ..base },
        // C07: reallocation everywhere
        "realloc" => Profile { name: "realloc", w_capacity: 22, w_insert: 30, w_remove: 10, w_iterate: 6, w_clone: 2, universe: (4, 64), fill: (8, 200), ..base },
        // C10: insertion thresholds
        "insert" => Profile { name: "insert", w_insert: 24, w_try_insert: 30, w_remove: 8, w_mutate: 6, w_set_max: 6, random_size_permille: 120, ..base },
        // C11: mutate
        "mutate" => Profile { name: "mutate", w_mutate: 40, w_insert: 22, w_set_max: 5, random_size_permille: 150, fill: (2, 10), ..base },
        // C13: capacity management
        "capacity" => Profile { name: "capacity", w_capacity: 26, w_alloc_fail: 5, w_insert: 28, w_remove: 14, w_clone: 3, universe: (4, 128), fill: (8, 300), events: (40, 400), ..base },
        // C14: clones
        "clone" => Profile { name: "clone", w_clone: 16, w_capacity: 6, events: (20, 120), ..base },
        // C15
        "retain" => Profile { name: "retain", w_retain: 16, w_insert: 30, universe: (3, 24), fill: (3, 30), ..base },
        // C07 at scale: caches of thousands of entries
        "big" => Profile { name: "big", w_capacity: 14, w_insert: 34, w_remove: 12, w_iterate: 1, w_clone: 1, w_retain: 0, w_clear: 0, w_set_max: 1, w_debug: 0, universe: (3000, 12000), fill: (1500, 9000), events: (8000, 30000), gentle: true, ..base },
        // C20
        "hash" => Profile { name: "hash", w_capacity: 8, w_set_max: 6, w_retain: 4, universe: (4, 64), fill: (4, 80), ..base },
        // extreme sizes only (C01/C02)
        "extreme" => Profile { name: "extreme", w_mutate: 24, w_insert: 26, w_set_max: 8, extreme_permille: 1000, universe: (3, 8), ..base },
        _ => base,
    }
}

pub struct Gen {
    pub rng: Rng,
    pub prof: Profile,
    pub base: usize,
    pub orig_max: usize,
    /// population the history tries to reach before it aims at thresholds
    pub target_len: usize,
}

pub fn make_cfg(rng: &mut Rng, prof: &Profile, base: usize) -> HistCfg {
    let universe = rng.range(prof.universe.0 as usize, prof.universe.1 as usize) as u32;
    let extreme = rng.below(1000) < prof.extreme_permille;
    let hk = if rng.below(1000) < prof.default_hasher_permille { 4 } else { crate::types::TH_KINDS[rng.usize_below(crate::types::TH_KINDS.len())] };
    let typical = base + 60;
    let max = if extreme {
        match rng.below(5) { 0 => usize::MAX, 1 => usize::MAX - rng.usize_below(1000), 2 => usize::MAX / 2 + rng.usize_below(1 << 40), 3 => (1usize << 63) + rng.usize_below(1 << 20), _ => usize::MAX - (rng.usize_below(1 << 62)) }
    } else {
        match rng.below(24) {
            0 => 0,
            1 => base,
            2 => base - 1,
            3 | 4 => usize::MAX,
            5 | 6 => base * rng.range(1, 6) + rng.usize_below(3),
            _ => typical * rng.range(prof.fill.0, prof.fill.1) + rng.usize_below(typical),
        }
    };
    let cap0 = match rng.below(7) { 0 => None, 1 => Some(0), 2 => Some(1), 3 => Some(3), 4 => Some(7), 5 => Some(28), _ => Some(rng.usize_below(universe as usize * 2 + 2)) };
    // now and then a table of many megabytes under the same few entries (a large allocation behaves differently
    // from a small one when it is freed, and thresholds on the table's size are reached)
    let cap0 = if !cfg!(miri) && rng.below(64) == 0 { Some(60_000 + rng.usize_below(200_000)) } else { cap0 };
    let mut events = rng.range(prof.events.0, prof.events.1);
    // interpreters run four orders of magnitude slower: many short histories
    let (universe, max) = if cfg!(miri) { events = events.min(50); (universe.min(12), if !extreme && max > typical * 12 && max != usize::MAX { typical * rng.range(2, 10) } else { max }) } else { (universe, max) };
    HistCfg { hk, cap0, max, universe, events, extreme }
}

impl Gen {
    fn split(&mut self, total: usize) -> (usize, usize) {
        // total entry size -> (key heap, value heap)
        let extra = total.saturating_sub(self.base);
        match self.rng.below(4) { 0 => (extra, 0), 1 => { let a = self.rng.usize_below(extra.min(64) + 1); (a, extra - a) } _ => (0, extra) }
    }

    /// a total entry size aimed at a threshold of the current state
    fn pick_size(&mut self, pre: &Obs, id: u32, extreme: bool) -> usize {
        let base = self.base;
        let max = pre.max as u128;
        let cur = pre.cur as u128;
        let free = max.saturating_sub(cur);
        let own = pre.find(id).map(|e| e.rec as u128).unwrap_or(0);
        let small = |g: &mut Gen| -> usize { if extreme { g.extreme_size(pre) } else { base + match g.rng.below(4) { 0 => 0, 1 => g.rng.usize_below(8), _ => g.rng.usize_below(150) } } };
        // filling phase: let the cache grow to its target population before aiming at thresholds
        if pre.len < self.target_len && self.rng.chance(3, 4) { return small(self); }
        if self.rng.below(1000) < self.prof.random_size_permille { return small(self); }
        if self.prof.gentle {
            // a few evictions at most
            if self.rng.chance(4, 5) || pre.ents.is_empty() { return small(self); }
            let k = self.rng.range(1, pre.ents.len().min(3));
            let s: u128 = pre.ents[..k].iter().map(|e| e.rec as u128).sum();
            return (free + own + s).max(base as u128).min(max).min(usize::MAX as u128) as usize;
        }
        let pm = |r: &mut Rng, x: u128| -> u128 { match r.below(3) { 0 => x, 1 => x + 1, _ => x.saturating_sub(1) } };
        let t: u128 = match self.rng.weighted(&[14, 12, 7, 3, 5, 40, 6, 13]) {
            0 => free + own,
            1 => free + own + 1,
            2 => (free + own).saturating_sub(1),
            3 => max,
            4 => max + 1,
            5 => {
                // needs exactly k evictions (after crediting a replaced entry)
                let rest: Vec<u128> = pre.ents.iter().filter(|e| e.id != id).map(|e| e.rec as u128).collect();
                if rest.is_empty() { free + own } else {
                    let k = self.rng.range(1, rest.len().min(4));
                    let s: u128 = rest[..k].iter().sum();
                    pm(&mut self.rng, free + own + s)
                }
            }
            6 => free,
            _ => small(self) as u128,
        };
        let t = t.max(base as u128).min(usize::MAX as u128);
        t as usize
    }

    fn extreme_size(&mut self, pre: &Obs) -> usize {
        let m = pre.max.max(1 << 20);
        match self.rng.below(6) {
            0 => m / 2 + self.rng.usize_below(1000),
            1 => m / 3 + self.rng.usize_below(1000),
            2 => m / 4 + self.rng.usize_below(1 << 30),
            3 => m - self.rng.usize_below(1000).min(m - self.base),
            4 => self.base + self.rng.usize_below(200),
            _ => (1usize << self.rng.range(40, 62)) + self.rng.usize_below(1 << 20),
        }.max(self.base)
    }

    fn pick_id(&mut self, pre: &Obs, universe: u32) -> u32 {
        // bias towards present keys at specific positions
        let n = pre.ents.len();
        match self.rng.below(8) {
            0 if n > 0 => pre.ents[0].id,
            1 if n > 0 => pre.ents[n - 1].id,
            2 | 3 if n > 0 => pre.ents[self.rng.usize_below(n)].id,
            _ => self.rng.below(universe as u64) as u32,
        }
    }

    fn pick_calls(&mut self, n: usize) -> Vec<bool> {
        let len = match self.rng.below(5) { 0 => 0, 1 => n, 2 => n + self.rng.range(1, 3), _ => self.rng.usize_below(n + 3) };
        let style = self.rng.below(4);
        (0..len).map(|i| match style { 0 => false, 1 => true, 2 => i % 2 == 0, _ => self.rng.chance(1, 2) }).collect()
    }

    pub fn next_op(&mut self, pre: &Obs, cfg: &HistCfg, n_caches: usize, cur: usize) -> Op {
        let p = self.prof.clone();
        let w = [p.w_insert, p.w_try_insert, p.w_promote, p.w_peek, p.w_remove, p.w_mutate, p.w_set_max, p.w_retain, p.w_capacity, p.w_alloc_fail, p.w_clear, p.w_iterate, p.w_debug, p.w_clone];
        let universe = cfg.universe;
        let id = self.pick_id(pre, universe);
        let owned = self.rng.chance(1, 3);
        let base = self.base;
        // filling phase: bring the population up to the history's target with fresh small entries
        if pre.len < self.target_len && (pre.len as u32) < universe && self.rng.chance(3, 5) {
            let mut fresh = id;
            for _ in 0..8 { let c = self.rng.below(universe as u64) as u32; if pre.find(c).is_none() { fresh = c; break; } }
            let s = if cfg.extreme { self.extreme_size(pre) } else { base + match self.rng.below(3) { 0 => 0, 1 => self.rng.usize_below(16), _ => self.rng.usize_below(150) } };
            let (kh, vh) = self.split(s);
            return if self.rng.chance(1, 6) { Op::TryInsert { id: fresh, kh, vh } } else { Op::Insert { id: fresh, kh, vh } };
        }
        match self.rng.weighted(&w) {
            0 => { let s = self.pick_size(pre, id, cfg.extreme); let (kh, vh) = self.split(s); Op::Insert { id, kh, vh } }
            1 => { let s = self.pick_size(pre, id, cfg.extreme); let (kh, vh) = self.split(s); Op::TryInsert { id, kh, vh } }
            2 => match self.rng.below(4) { 0 => Op::Get { id, owned }, 1 => Op::GetEntry { id, owned }, 2 => Op::Touch { id, owned }, _ => Op::GetLru },
            3 => match self.rng.below(6) { 0 => Op::Peek { id, owned }, 1 => Op::PeekEntry { id, owned }, 2 => Op::Contains { id, owned }, 3 => Op::PeekLru, 4 => Op::PeekMru, _ => Op::Scalars },
            4 => match self.rng.below(5) { 0 | 1 => Op::Remove { id, owned }, 2 => Op::RemoveEntry { id, owned }, 3 => Op::RemoveLru, _ => Op::RemoveMru },
            5 => {
                let vh = match pre.find(id) {
                    None => self.rng.usize_below(200),
                    Some(e) if self.prof.gentle => { let _ = e; self.rng.usize_below(200) }
                    Some(e) => {
                        let fixed = e.kheap as u128 + base as u128; // key part + entry overhead
                        let max = pre.max as u128; let free = max.saturating_sub(pre.cur as u128);
                        let own = e.rec as u128;
                        let target_total: u128 = match [0u64, 1, 2, 3, 4, 5, 7, 8, 9][self.rng.weighted(&[8, 8, 5, 12, 12, 26, 2, 5, 22])] {
                            0 => fixed,                                   // shrink to nothing
                            1 => own,                                     // no change
                            2 => own.saturating_sub(1).max(fixed),        // shrink by one
                            3 => own + free,                              // fits exactly
                            4 => own + free + 1,                          // one over: needs an eviction (or overflows when alone)
                            5 => {                                        // needs k evictions
                                let rest: Vec<u128> = pre.ents.iter().filter(|x| x.id != id).map(|x| x.rec as u128).collect();
                                if rest.is_empty() { own + free } else { let k = self.rng.range(1, rest.len().min(4)); let s: u128 = rest[..k].iter().sum(); match self.rng.below(3) { 0 => own + free + s, 1 => own + free + s + 1, _ => (own + free + s).saturating_sub(1) } }
                            }
                            7 => max,                                     // grown entry alone fills the cache
                            8 => max + 1,                                 // too large
                            _ => if cfg.extreme { self.extreme_size(pre) as u128 } else { fixed + self.rng.below(300) as u128 },
                        };
                        let t = target_total.max(fixed).min(usize::MAX as u128);
                        (t - fixed) as usize
                    }
                };
                Op::Mutate { id, owned, vh }
            }
            6 if self.prof.gentle => Op::SetMax { m: match self.rng.below(3) { 0 => pre.cur, 1 => pre.cur.saturating_sub(1), _ => self.orig_max } },
            6 => {
                let cur_sz = pre.cur;
                let m = match [0u64, 1, 2, 3, 4, 6, 8][self.rng.weighted(&[6, 6, 1, 3, 10, if pre.max < self.orig_max { 14 } else { 4 }, 3])] {
                    0 => cur_sz, 1 => cur_sz.saturating_sub(1), 2 => 0, 3 => usize::MAX,
                    4 => { // suffix sums +-1: keep exactly the k newest
                        let n = pre.ents.len(); if n == 0 { self.orig_max } else { let k = self.rng.range(0, n); let s: u128 = pre.ents[n - k..].iter().map(|e| e.rec as u128).sum(); let s = s.min(usize::MAX as u128) as usize; match self.rng.below(3) { 0 => s, 1 => s.saturating_add(1), _ => s.saturating_sub(1) } }
                    }
                    6 => self.orig_max,
                    _ => if cfg.extreme { usize::MAX - self.rng.usize_below(1 << 20) } else { self.rng.usize_below(cur_sz.saturating_add(300).min(1 << 40)) },
                };
                Op::SetMax { m }
            }
            7 => {
                let n = pre.ents.len();
                let reject: Vec<u32> = match self.rng.below(7) {
                    0 => vec![], 1 => pre.ids(),
                    2 if n > 0 => vec![pre.ents[0].id], 3 if n > 0 => vec![pre.ents[n - 1].id],
                    4 => pre.ents.iter().enumerate().filter(|(i, _)| i % 2 == 0).map(|(_, e)| e.id).collect(),
                    _ => { let m = self.rng.next(); (0..universe).filter(|i| (m >> (i % 64)) & 1 == 1).collect() }
                };
                Op::Retain { reject }
            }
            8 => {
                let n = match self.rng.below(8) { 0 => 0, 1 => self.rng.usize_below(5), 2 => self.rng.usize_below(100), 3 => pre.len, 4 => pre.cap.saturating_sub(pre.len), 5 => pre.cap.saturating_sub(pre.len) + 1, 6 => pre.cap + self.rng.usize_below(10), _ => self.rng.usize_below(600) };
                match self.rng.below(9) {
                    // (now and then an argument that reserve refuses with its documented panic)
                    0 | 1 => Op::Reserve { n: if self.rng.chance(1, 12) { match self.rng.below(4) { 0 => usize::MAX, 1 => usize::MAX - pre.len, 2 => (usize::MAX - pre.len).saturating_add(1), _ => usize::MAX / 8 } } else { n } },
                    2 => Op::TryReserve { n },
                    3 => Op::TryReserve { n: match self.rng.below(4) { 0 => usize::MAX, 1 => usize::MAX - pre.len, 2 => (usize::MAX - pre.len).saturating_add(1), _ => usize::MAX / 8 } },
                    4 | 5 => Op::ShrinkTo { n: match self.rng.below(6) { 0 => 0, 1 => pre.len, 2 => pre.cap.saturating_sub(1), 3 => pre.cap + 1, 4 => usize::MAX, _ => self.rng.usize_below(pre.cap + 2) } },
                    _ => Op::ShrinkFit,
                }
            }
            9 => Op::TryReserveFail { n: pre.cap.saturating_sub(pre.len) + 1 + self.rng.usize_below(40), fail_at: 1 + self.rng.below(3) },
            10 => Op::Clear,
            11 => { let kind = if self.rng.chance(1, 8) && !self.prof.gentle { 3 } else { self.rng.below(3) as u8 }; let calls = self.pick_calls(pre.ents.len()); Op::Iterate { kind, calls, forget: false, fin: if self.rng.chance(2, 3) { 0 } else { 1 + self.rng.below(crate::ops::N_FIN - 1) as u8 } } }
            12 => Op::Debug,
            _ => {
                match self.rng.below(10) {
                    0 | 1 if n_caches < 3 => Op::CloneCache,
                    2 if n_caches < 3 => { // an independently constructed sibling (own hasher instance, own limit and capacity)
                        let m = match self.rng.below(4) { 0 => pre.max, 1 => pre.max / 2, 2 => pre.cur / 2, _ => (base + 60) * self.rng.range(1, 8) };
                        Op::NewCache { max: m, cap0: match self.rng.below(3) { 0 => None, 1 => Some(self.rng.usize_below(8)), _ => Some(pre.cap + self.rng.usize_below(20)) } } }
                    3 | 4 if n_caches > 1 => Op::Switch { idx: self.rng.usize_below(n_caches) },
                    5 if n_caches > 1 => Op::DropCache { idx: self.rng.usize_below(n_caches) },
                    6 if n_caches > 1 => { let kind = 4 + self.rng.below(3) as u8; let calls = self.pick_calls(pre.ents.len()); Op::Into { kind, calls, forget: false, fin: if self.rng.chance(2, 3) { 0 } else { 1 + self.rng.below(crate::ops::N_FIN - 1) as u8 } } }
                    7 | 8 if n_caches > 1 => Op::CloneFrom { src: (cur + 1 + self.rng.usize_below(n_caches - 1)) % n_caches },
                    _ => if n_caches < 3 { Op::CloneCache } else { Op::Switch { idx: (cur + 1) % n_caches } },
                }
            }
        }
    }
}
