//! Minimal JSON writer (no external crates).

use std::collections::BTreeMap;

#[derive(Clone, Debug)]
pub enum J {
    Null,
    Bool(bool),
    Int(i128),
    Str(String),
    Arr(Vec<J>),
    Obj(Vec<(String, J)>),
}

impl J {
    pub fn obj() -> J { J::Obj(Vec::new()) }
    pub fn set(mut self, k: &str, v: J) -> J { if let J::Obj(o) = &mut self { o.push((k.to_string(), v)); } self }
    pub fn put(&mut self, k: &str, v: J) { if let J::Obj(o) = self { o.push((k.to_string(), v)); } }
    pub fn s(x: &str) -> J { J::Str(x.to_string()) }
    pub fn u(x: u64) -> J { J::Int(x as i128) }
    pub fn us(x: usize) -> J { J::Int(x as i128) }
    pub fn strs<I: IntoIterator<Item = String>>(xs: I) -> J { J::Arr(xs.into_iter().map(J::Str).collect()) }
    pub fn map_u64(m: &BTreeMap<String, u64>) -> J { J::Obj(m.iter().map(|(k, v)| (k.clone(), J::u(*v))).collect()) }
    pub fn write(&self, out: &mut String) {
        match self {
            J::Null => out.push_str("null"),
            J::Bool(b) => out.push_str(if *b { "true" } else { "false" }),
            J::Int(i) => out.push_str(&i.to_string()),
            J::Str(s) => { out.push('"'); for c in s.chars() { match c { '"' => out.push_str("\\\""), '\\' => out.push_str("\\\\"), '\n' => out.push_str("\\n"), '\r' => out.push_str("\\r"), '\t' => out.push_str("\\t"), c if (c as u32) < 0x20 => out.push_str(&format!("\\u{:04x}", c as u32)), c => out.push(c) } } out.push('"'); }
            J::Arr(a) => { out.push('['); for (i, x) in a.iter().enumerate() { if i > 0 { out.push(','); } x.write(out); } out.push(']'); }
            J::Obj(o) => { out.push('{'); for (i, (k, x)) in o.iter().enumerate() { if i > 0 { out.push(','); } J::Str(k.clone()).write(out); out.push(':'); x.write(out); } out.push('}'); }
        }
    }
    pub fn to_string(&self) -> String { let mut s = String::new(); self.write(&mut s); s }
}
