//! lruverif: runtime monitors for lru-mem. One binary, many sub-commands; each prints /
//! writes one JSON result that run/check.py merges into verdicts and evidence.

mod engine;
mod enumr;
mod gen;
mod inject;
mod json;
mod memsize;
mod obs;
mod ops;
mod oracle;
mod rng;
mod types;
mod valloc;

use json::J;
use std::collections::HashMap;

#[global_allocator]
static GLOBAL: valloc::VAlloc = valloc::VAlloc;

pub struct Args { pub cmd: String, pub kv: HashMap<String, String> }

impl Args {
    fn parse() -> Args {
        let mut it = std::env::args().skip(1);
        let cmd = it.next().unwrap_or_else(|| "help".to_string());
        let mut kv = HashMap::new();
        let rest: Vec<String> = it.collect();
        let mut i = 0;
        while i < rest.len() {
            if let Some(k) = rest[i].strip_prefix("--") {
                if let Some((a, b)) = k.split_once('=') { kv.insert(a.to_string(), b.to_string()); }
                else if i + 1 < rest.len() && !rest[i + 1].starts_with("--") { kv.insert(k.to_string(), rest[i + 1].clone()); i += 1; }
                else { kv.insert(k.to_string(), "1".to_string()); }
            }
            i += 1;
        }
        Args { cmd, kv }
    }
    pub fn u64(&self, k: &str, d: u64) -> u64 { self.kv.get(k).and_then(|v| v.parse().ok()).unwrap_or(d) }
    pub fn str(&self, k: &str, d: &str) -> String { self.kv.get(k).cloned().unwrap_or_else(|| d.to_string()) }
}

pub fn stats_json(out: &engine::RunOut) -> J {
    let st = &out.stats;
    let mut j = J::obj();
    j.put("events", J::u(st.events));
    j.put("histories", J::u(st.histories));
    j.put("evals", J::Obj(st.evals.iter().map(|(k, v)| (k.to_string(), J::u(*v))).collect()));
    j.put("distinct", J::Obj(st.distinct.iter().map(|(k, v)| (k.to_string(), J::Arr(v.iter().map(|x| J::Str(format!("{:x}", x))).collect()))).collect()));
    j.put("counters", J::map_u64(&st.counters));
    j.put("maxima", J::map_u64(&st.maxima));
    j.put("samples", J::Obj(st.samples.iter().map(|(k, v)| (k.to_string(), J::strs(v.iter().cloned()))).collect()));
    j.put("failures", J::Arr(out.failures.iter().map(|f| f.to_json()).collect()));
    j.put("viol_counts", J::Obj(out.viol_counts.iter().map(|(k, v)| (k.to_string(), J::u(*v))).collect()));
    j.put("gate_broken_histories", J::u(out.gate_broken_histories));
    j
}

fn emit(args: &Args, j: J) {
    let s = j.to_string();
    if let Some(p) = args.kv.get("out") { std::fs::write(p, &s).expect("write result"); }
    println!("RESULT {}", s);
}

fn quiet_panics() {
    // expected panics (injected ones, documented ones) are part of the workloads; keep stderr readable
    std::panic::set_hook(Box::new(|info| {
        let msg = info.to_string();
        if std::env::var("LRUVERIF_SHOW_PANICS").is_ok() { eprintln!("[panic] {}", msg); }
    }));
}

fn main() {
    let args = Args::parse();
    quiet_panics();
    match args.cmd.as_str() {
        "hist" => {
            let mut out = engine::RunOut::new();
            let seed = args.u64("seed", 0);
            let profile = args.str("profile", "mixed");
            engine::run_profile(&profile, seed, args.u64("events", 10000), &mut out, args.u64("bare", 0) == 1);
            emit(&args, stats_json(&out).set("cmd", J::s("hist")).set("profile", J::s(&profile)).set("seed", J::u(seed)));
        }
        "enum_iter" | "enum_retain" => {
            let mut out = engine::RunOut::new();
            let p = enumr::EnumParams { max_n: args.u64("max-n", 4) as usize, extra_calls: args.u64("extra", 3) as usize, forget: args.u64("forget", 0) == 1,
                shard: args.u64("shard", 0), nshards: args.u64("nshards", 1).max(1), seed: args.u64("seed", 0), bare: args.u64("bare", 0) == 1, markers: args.u64("markers", 0) == 1 };
            let cases = if args.cmd == "enum_iter" {
                let a = enumr::enum_iter(&p, &mut out);
                a + enumr::random_iter(&p, args.u64("random", 0), args.u64("random-len", 60) as usize, &mut out)
            } else {
                let a = enumr::enum_retain(&p, &mut out);
                enumr::random_retain(&p, args.u64("random", 0), args.u64("random-len", 60) as usize, &mut out);
                a + args.u64("random", 0)
            };
            emit(&args, stats_json(&out).set("cmd", J::s(&args.cmd)).set("cases", J::u(cases)));
        }
        "inject" => {
            let mut out = engine::RunOut::new();
            let p = inject::InjectParams { seed: args.u64("seed", 0), budget_cases: args.u64("cases", 2000), markers: args.u64("markers", 0) == 1,
                further_min: args.u64("further-min", 6) as usize, further_max: args.u64("further-max", 20) as usize };
            inject::run_inject(&p, &mut out);
            emit(&args, stats_json(&out).set("cmd", J::s("inject")));
        }
        "replay_inject" => {
            // file: cfg line, `inject <class> <n> <at>` line, then one op per line
            let text = std::fs::read_to_string(args.str("file", "")).expect("read replay file");
            let mut lines = text.lines().filter(|l| !l.trim().is_empty());
            let cfg = gen::HistCfg::from_text(lines.next().expect("cfg line")).expect("cfg");
            let inj: Vec<String> = lines.next().expect("inject line").split_whitespace().map(|s| s.to_string()).collect();
            let class = types::CLASS_NAMES.iter().position(|c| *c == inj[1]).expect("class");
            let n: u64 = inj[2].parse().expect("n"); let at: usize = inj[3].parse().expect("at");
            let ops: Vec<ops::Op> = lines.map(|l| ops::Op::from_text(l).expect("op")).collect();
            let mut out = engine::RunOut::new();
            inject::replay_inject(&cfg, &ops, at, class, n, &mut out);
            emit(&args, stats_json(&out).set("cmd", J::s("replay_inject")));
        }
        "memsize" => {
            let nsh = args.u64("nshards", 1).max(1);
            let ms = memsize::run_memsize(args.u64("seed", 0), args.u64("rounds", 200), if nsh > 1 { Some((args.u64("shard", 0), nsh)) } else { None });
            let mut out = engine::RunOut::new();
            out.stats = ms.stats;
            for v in &ms.viols { *out.viol_counts.entry(v.prop).or_insert(0) += 1; }
            let mut j = stats_json(&out).set("cmd", J::s("memsize"));
            if let J::Obj(o) = &mut j { o.retain(|(k, _)| k != "failures"); }
            j.put("failures", J::Arr(ms.viols.iter().map(|v| J::obj().set("property", J::s(v.prop)).set("signature", J::s(&v.sig)).set("message", J::s(&v.msg)).set("kind", J::s("memsize"))).collect()));
            j.put("types", J::Arr(ms.per_type.iter().map(|(n, c)| J::obj().set("type", J::s(n)).set("values", J::u(*c))).collect()));
            emit(&args, j);
        }
        "memsize_total" => {
            // one totality case per process: the verdict is the exit status (stack overflow aborts the process)
            let case = args.u64("case", 0); let n = args.u64("n", 1_000_000) as usize;
            let small = args.str("thread", "main") == "small";
            let run = move || match memsize::totality_case(case, n) { Some((what, got, want)) => println!("TOTAL-OK case={} n={} {} = {} (law: {})", case, n, what, got, want), None => println!("TOTAL-NONE case={}", case) };
            if small { std::thread::Builder::new().spawn(run).unwrap().join().unwrap(); } else { run(); }
        }
        "selfcheck" => {
            // used by the driver to build (and smoke-test) a mode
            let mut out = engine::RunOut::new();
            engine::run_profile("mixed", 1, 50, &mut out, false);
            emit(&args, stats_json(&out).set("cmd", J::s("selfcheck")));
        }
        "replay" => {
            // file: first line cfg, then one op per line
            let path = args.str("file", "");
            let text = std::fs::read_to_string(&path).expect("read replay file");
            let mut lines = text.lines().filter(|l| !l.trim().is_empty());
            let cfg = gen::HistCfg::from_text(lines.next().expect("cfg line")).expect("cfg");
            let ops: Vec<ops::Op> = lines.map(|l| ops::Op::from_text(l).expect("op")).collect();
            let mut out = engine::RunOut::new();
            engine::run_history(&cfg, engine::Source::Fixed(&ops), &mut out, &engine::HistOpts::default());
            emit(&args, stats_json(&out).set("cmd", J::s("replay")));
        }
        _ => {
            eprintln!("usage: lruverif <hist|replay|...> [--key value]...");
            std::process::exit(2);
        }
    }
}
