//! C06 over type configurations: the same ledger oracle with key/value types that differ in
//! whether they have drop glue (`LruCache<TKey, u64>`, `LruCache<u32, TVal>`, `LruCache<TKey, &str>`),
//! because code may (legitimately or not) branch on `mem::needs_drop`.

use crate::engine::{Failure, RunOut};
use crate::gen::HistCfg;
use crate::rng::{mix, Rng};
use crate::types::*;
use lru_mem::LruCache;

fn fail(out: &mut RunOut, sig: &str, msg: String, log: &[String]) {
    *out.viol_counts.entry("C06").or_insert(0) += 1;
    if out.failures.iter().filter(|f| f.prop == "C06" && f.sig == sig).count() < 3 {
        let cfg = HistCfg { hk: 3, cap0: None, max: 0, universe: 0, events: 0, extreme: false };
        out.failures.push(Failure { prop: "C06", sig: sig.to_string(), msg, cfg, ops: vec![log.join("; ")], at: 0, inject: None, rerun: true });
    }
}

macro_rules! variant {
    ($fname:ident, $label:expr, $K:ty, $V:ty, $mk_k:expr, $mk_v:expr, $kid:expr) => {
        pub fn $fname(rng: &mut Rng, out: &mut RunOut) {
            ledger_reset(); ledger_strict(true);
            let mk_k: fn(u32) -> $K = $mk_k; let mk_v: fn(u64) -> $V = $mk_v; let kid: fn(&$K) -> u32 = $kid;
            let universe = rng.range(3, 14) as u32;
            let e0 = lru_mem::entry_size(&mk_k(0), &mk_v(0));
            let _ = ledger_take_errors();
            let max = match rng.below(5) { 0 => usize::MAX, 1 => e0 * 2, _ => e0 * rng.range(2, 10) + rng.usize_below(e0) };
            let hk = TH_KINDS[rng.usize_below(TH_KINDS.len())];
            let mut caches: Vec<LruCache<$K, $V, TH>> = vec![if rng.chance(1, 2) { LruCache::with_hasher(max, TH(hk, next_hasher_seed())) } else { LruCache::with_capacity_and_hasher(max, rng.usize_below(20), TH(hk, next_hasher_seed())) }];
            let mut log: Vec<String> = vec![format!("{} max={} hk={}", $label, max, hk)];
            let n = rng.range(0, 60);
            let mut stamp = 1u64;
            for _ in 0..n {
                let id = rng.below(universe as u64) as u32;
                let ci = rng.usize_below(caches.len());
                let c = &mut caches[ci];
                stamp += 1;
                let what: String = match rng.below(14) {
                    0..=4 => { let _ = c.insert(mk_k(id), mk_v(stamp)); format!("#{} insert {}", ci, id) }
                    5 => { let _ = c.try_insert(mk_k(id), mk_v(stamp)); format!("#{} try_insert {}", ci, id) }
                    6 => { let probe = mk_k(id); let _ = c.remove(&probe); format!("#{} remove {}", ci, id) }
                    7 => { let _ = c.remove_lru(); format!("#{} remove_lru", ci) }
                    8 => { let _ = c.remove_mru(); format!("#{} remove_mru", ci) }
                    9 => { let probe = mk_k(id); let _ = c.get(&probe); let _ = c.mutate(&probe, |_v| ()); format!("#{} get/mutate {}", ci, id) }
                    10 => { let m = rng.next(); c.retain(|k, _| (m >> (kid(k) % 64)) & 1 == 1); format!("#{} retain", ci) }
                    11 => { match rng.below(4) { 0 => c.reserve(rng.usize_below(30)), 1 => c.shrink_to_fit(), 2 => c.set_max_size(c.current_size() / 2), _ => c.set_max_size(max) } format!("#{} capacity/limit", ci) }
                    12 => { if caches.len() < 3 { if rng.chance(1, 2) { let d = caches[ci].clone(); caches.push(d); } else { let m2 = if rng.chance(1, 2) { max } else { e0 * rng.range(1, 6) }; caches.push(LruCache::with_capacity_and_hasher(m2, rng.usize_below(40), TH(hk, next_hasher_seed()))); } }
                        else { let src = (ci + 1) % caches.len(); if ci < src { let (l, r) = caches.split_at_mut(src); l[ci].clone_from(&r[0]); } else { let (l, r) = caches.split_at_mut(ci); r[0].clone_from(&l[src]); } }
                        format!("#{} clone / new cache / clone_from", ci) }
                    _ => { if rng.chance(1, 3) { c.clear(); } format!("#{} clear?", ci) }
                };
                log.push(what);
                out.stats.events += 1;
                for e in ledger_take_errors() { fail(out, "typevar-double-drop", format!("{}: {}", $label, e), &log); }
            }
            // every way of ending, with partial consumption from either end
            while let Some(mut c) = caches.pop() {
                let len = c.len();
                let calls: Vec<bool> = (0..rng.usize_below(len + 3)).map(|_| rng.chance(1, 2)).collect();
                let how = rng.below(6);
                let desc = format!("end: {} with calls {}", ["drop", "clear+drop", "drain", "into_iter", "into_keys", "into_values"][how as usize], calls.iter().map(|b| if *b { 'B' } else { 'F' }).collect::<String>());
                log.push(desc);
                match how {
                    0 => drop(c),
                    1 => { c.clear(); drop(c); }
                    2 => { { let mut it = c.drain(); let mut held = Vec::new(); for b in &calls { if let Some(x) = if *b { it.next_back() } else { it.next() } { held.push(x); } } } drop(c); }
                    3 => { let mut it = c.into_iter(); let mut held = Vec::new(); for b in &calls { if let Some(x) = if *b { it.next_back() } else { it.next() } { held.push(x); } } }
                    4 => { let mut it = c.into_keys(); let mut held = Vec::new(); for b in &calls { if let Some(x) = if *b { it.next_back() } else { it.next() } { held.push(x); } } }
                    _ => { let mut it = c.into_values(); let mut held = Vec::new(); for b in &calls { if let Some(x) = if *b { it.next_back() } else { it.next() } { held.push(x); } } }
                }
                out.stats.eval("C06", mix(&[7000, how, len.min(9) as u64, calls.len().min(9) as u64, $label.len() as u64]));
                out.stats.countf(format_args!("c06_typevar_{}_{}", $label, ["drop", "clear", "drain", "into_iter", "into_keys", "into_values"][how as usize]));
                for e in ledger_take_errors() { fail(out, "typevar-double-drop", format!("{}: {}", $label, e), &log); }
            }
            if ledger_live() != 0 {
                fail(out, "typevar-leak", format!("{}: after every cache and everything obtained from them is gone, {} tracked objects were never dropped (e.g. {:?})", $label, ledger_live(), ledger_live_uids(100000).into_iter().take(5).collect::<Vec<_>>()), &log);
            }
            out.stats.histories += 1;
            ledger_reset();
        }
    };
}

variant!(run_key_tracked_u64, "K=TKey,V=u64", TKey, u64, |id| TKey::new(id, 0), |s| s, |k: &TKey| k.id);
variant!(run_val_tracked_u32, "K=u32,V=TVal", u32, TVal, |id| id, |_s| TVal::new(0), |k: &u32| *k);
variant!(run_key_tracked_str, "K=TKey,V=&str", TKey, &'static str, |id| TKey::new(id, 0), |_s| "v", |k: &TKey| k.id);
variant!(run_both_tracked, "K=TKey,V=TVal", TKey, TVal, |id| TKey::new(id, 0), |_s| TVal::new(0), |k: &TKey| k.id);

/// Accounting against the public `entry_size` for key/value types with unusual layout (narrow pairs whose size is not a
/// multiple of 8, over-aligned u128, zero-sized values, arrays): C02's identity and C10's thresholds are about
/// `entry_size(key, value)` for whatever K and V are.
macro_rules! layout_variant {
    ($fname:ident, $label:expr, $K:ty, $V:ty, $mk_k:expr, $mk_v:expr) => {
        pub fn $fname(rng: &mut Rng, out: &mut RunOut) {
            let mk_k: fn(u32) -> $K = $mk_k; let mk_v: fn(u32) -> $V = $mk_v;
            let e = lru_mem::entry_size(&mk_k(0), &mk_v(0));
            let log = vec![format!("{} entry_size={}", $label, e)];
            let mut bad = |prop: &'static str, sig: &str, msg: String, out: &mut RunOut| {
                *out.viol_counts.entry(prop).or_insert(0) += 1;
                if out.failures.iter().filter(|f| f.prop == prop && f.sig == sig).count() < 3 {
                    let cfg = HistCfg { hk: 4, cap0: None, max: 0, universe: 0, events: 0, extreme: false };
                    out.failures.push(Failure { prop, sig: sig.to_string(), msg, cfg, ops: log.clone(), at: 0, inject: None, rerun: true });
                }
            };
            // thresholds of C10 with the public figure
            for (limit, fits) in [(e - 1, false), (e, true)] {
                let mut c: LruCache<$K, $V> = LruCache::new(limit);
                let r = c.insert(mk_k(1), mk_v(1)).is_ok();
                let mut c2: LruCache<$K, $V> = LruCache::new(limit);
                let r2 = c2.try_insert(mk_k(1), mk_v(1)).is_ok();
                out.stats.eval("C10", mix(&[7100, fits as u64, $label.len() as u64, e as u64]));
                if r != fits || r2 != fits { bad("C10", "layout-threshold", format!("{}: entry_size = {}, limit {}: insert accepted = {}, try_insert accepted = {}, expected {}", $label, e, limit, r, r2, fits), out); }
            }
            {   // two entries fit a limit of exactly 2 x entry_size; a third needs an eviction
                let mut c: LruCache<$K, $V> = LruCache::new(2 * e);
                let a = c.try_insert(mk_k(1), mk_v(1)).is_ok(); let b = c.try_insert(mk_k(2), mk_v(2)).is_ok(); let third = c.try_insert(mk_k(3), mk_v(3)).is_ok();
                if !a || !b || third || c.len() != 2 { bad("C10", "layout-threshold", format!("{}: limit 2 x {}: try_insert results {}/{}/{} (expected ok/ok/rejected)", $label, e, a, b, third), out); }
                if c.current_size() != 2 * e { bad("C02", "layout-sum", format!("{}: two entries held, current_size() = {}, 2 x entry_size = {}", $label, c.current_size(), 2 * e), out); }
            }
            // a short random history with the sum identity after every step
            let n = rng.range(3, 9) as u32;
            let mut c: LruCache<$K, $V> = LruCache::new(e * rng.range(1, 6) + rng.usize_below(e));
            for _ in 0..rng.range(10, 60) {
                let id = rng.below(n as u64 + 2) as u32;
                match rng.below(6) { 0..=2 => { let _ = c.insert(mk_k(id), mk_v(id)); } 3 => { let _ = c.remove(&mk_k(id)); } 4 => { let _ = c.try_insert(mk_k(id), mk_v(id)); } _ => { let m = c.current_size() / 2 + e; c.set_max_size(m); } }
                out.stats.events += 1;
                let sum: u128 = c.iter().map(|(k, v)| lru_mem::entry_size(k, v) as u128).sum();
                out.stats.eval("C02", mix(&[7200, c.len().min(8) as u64, $label.len() as u64]));
                out.stats.count("c02_layout_events");
                if c.current_size() as u128 != sum || c.current_size() > c.max_size() { bad("C02", "layout-sum", format!("{}: current_size() = {}, sum of entry_size over the {} entries = {}, max_size() = {}", $label, c.current_size(), c.len(), sum, c.max_size()), out); break; }
            }
        }
    };
}
layout_variant!(lay_u8_u8, "K=u8,V=u8", u8, u8, |i| i as u8, |i| i as u8);
layout_variant!(lay_u16_u16, "K=u16,V=u16", u16, u16, |i| i as u16, |i| i as u16);
layout_variant!(lay_bool_u8, "K=u8,V=bool", u8, bool, |i| i as u8, |i| i % 2 == 0);
layout_variant!(lay_u32_unit, "K=u32,V=()", u32, (), |i| i, |_| ());
layout_variant!(lay_u128_u64, "K=u128,V=u64", u128, u64, |i| i as u128, |i| i as u64);
layout_variant!(lay_u128_u128, "K=u128,V=u128", u128, u128, |i| i as u128, |i| i as u128);
layout_variant!(lay_pair_u8, "K=(u32,u32),V=u8", (u32, u32), u8, |i| (i, i), |i| i as u8);
layout_variant!(lay_u64_arr3, "K=u64,V=[u8;3]", u64, [u8; 3], |i| i as u64, |i| [i as u8; 3]);
layout_variant!(lay_u128_vecstring, "K=u128,V=Vec<String>", u128, Vec<String>, |i| i as u128, |_| vec![String::new()]);


// ---- zero-sized values with drop glue and a size that depends on state outside the value (a permit, a handle into an
// arena): code may branch on `size_of::<V>() == 0`; drop counts stand in for identities, a small model for the accounting.
thread_local! { static TOK_HEAP: std::cell::Cell<usize> = std::cell::Cell::new(0); static TOK_MADE: std::cell::Cell<u64> = std::cell::Cell::new(0); static TOK_DROPPED: std::cell::Cell<u64> = std::cell::Cell::new(0); }
#[derive(Debug)]
pub struct Tok;
impl Tok { fn new() -> Tok { TOK_MADE.with(|c| c.set(c.get() + 1)); Tok } }
impl Drop for Tok { fn drop(&mut self) { TOK_DROPPED.with(|c| c.set(c.get() + 1)); } }
impl lru_mem::HeapSize for Tok { fn heap_size(&self) -> usize { TOK_HEAP.with(|c| c.get()) } }
fn tok_live() -> i64 { TOK_MADE.with(|c| c.get()) as i64 - TOK_DROPPED.with(|c| c.get()) as i64 }

pub fn run_zst_tokens<K: Eq + std::hash::Hash + lru_mem::MemSize + std::fmt::Debug>(label: &'static str, mk_k: fn(u32) -> K, kid: fn(&K) -> u32, universe: u32, rng: &mut Rng, out: &mut RunOut) {
    let heaps = [0usize, 8, 24, 100];
    let measure = |id: u32| { let t = Tok::new(); lru_mem::entry_size(&mk_k(id), &t) };
    TOK_HEAP.with(|c| c.set(0));
    let e0 = measure(0);
    let max = match rng.below(4) { 0 => usize::MAX, 1 => e0 + 24, _ => e0 * rng.range(1, 5) + rng.usize_below(120) };
    let hk = TH_KINDS[rng.usize_below(TH_KINDS.len())];
    let base = tok_live();
    let mut c: LruCache<K, Tok, TH> = LruCache::with_hasher(max, TH(hk, next_hasher_seed()));
    let mut model: Vec<(u32, usize)> = Vec::new();
    let mut log: Vec<String> = vec![format!("{} max={} hk={}", label, max, hk)];
    let mut bad = |prop: &'static str, sig: &str, msg: String, log: &[String], out: &mut RunOut| {
        *out.viol_counts.entry(prop).or_insert(0) += 1;
        if out.failures.iter().filter(|f| f.prop == prop && f.sig == sig).count() < 3 {
            let cfg = HistCfg { hk: 3, cap0: None, max: 0, universe: 0, events: 0, extreme: false };
            out.failures.push(Failure { prop, sig: sig.to_string(), msg, cfg, ops: vec![log.join("; ")], at: 0, inject: None, rerun: true });
        }
    };
    for _ in 0..rng.range(5, 50) {
        let id = rng.below(universe as u64) as u32;
        let h = heaps[rng.usize_below(heaps.len())];
        let kind = rng.below(10);
        let what = match kind {
            0..=3 => {
                TOK_HEAP.with(|c| c.set(h));
                let size = measure(id);
                let r = c.insert(mk_k(id), Tok::new());
                if size > max { if r.is_ok() { bad("C02", "zst-token-model", format!("{}: insert of an entry of size {} accepted with limit {}", label, size, max), &log, out); } }
                else {
                    if r.is_err() { bad("C02", "zst-token-model", format!("{}: insert of an entry of size {} refused with limit {}", label, size, max), &log, out); }
                    model.retain(|e| e.0 != id);
                    while model.iter().map(|e| e.1 as u128).sum::<u128>() + size as u128 > max as u128 { model.remove(0); }
                    model.push((id, size));
                }
                format!("insert {} heap {}", id, h)
            }
            4..=6 => {
                let r = c.mutate(&mk_k(id), |_t| TOK_HEAP.with(|c| c.set(h)));
                if let Some(pos) = model.iter().position(|e| e.0 == id) {
                    TOK_HEAP.with(|c| c.set(h));
                    let size = measure(id);
                    let old = model.remove(pos);
                    if size > max && size > old.1 { if r.is_ok() { bad("C02", "zst-token-model", format!("{}: mutate grew the entry to {} over the limit {} and returned Ok", label, size, max), &log, out); } }
                    else {
                        if r.is_err() { bad("C02", "zst-token-model", format!("{}: mutate to size {} refused with limit {}", label, size, max), &log, out); }
                        while model.iter().map(|e| e.1 as u128).sum::<u128>() + size as u128 > max as u128 { model.remove(0); }
                        model.push((id, size));
                    }
                } else if !matches!(r, Ok(None)) { bad("C02", "zst-token-model", format!("{}: mutate of an absent key did not return Ok(None)", label), &log, out); }
                format!("mutate {} heap -> {}", id, h)
            }
            7 => { let r = c.remove(&mk_k(id)); let pos = model.iter().position(|e| e.0 == id); if r.is_some() != pos.is_some() { bad("C02", "zst-token-model", format!("{}: remove {} returned {:?}", label, id, r), &log, out); } if let Some(p) = pos { model.remove(p); } format!("remove {}", id) }
            8 => {
                // a Drain forgotten after a prefix of calls: C17 — the cache is empty afterwards and usable, nothing is dropped twice
                let calls = rng.usize_below(model.len() + 2);
                let mut it = c.drain();
                for i in 0..calls { let _ = if i % 2 == 0 { it.next() } else { it.next_back() }; }
                std::mem::forget(it);
                out.stats.count("c17_forgot_drain_zst_tokens");
                let listed = c.iter().count();
                if c.len() != 0 || !c.is_empty() || listed != 0 || c.current_size() != 0 || model.iter().any(|e| c.contains(&mk_k(e.0))) {
                    bad("C17", "zst-token-forgotten-drain", format!("{}: after a forgotten Drain ({} calls): len() = {}, traversal lists {}, current_size() = {}, contains(old key) = {}", label, calls, c.len(), listed, c.current_size(), model.iter().any(|e| c.contains(&mk_k(e.0)))), &log, out);
                }
                // what the forgotten iterator still held is leaked (allowed); re-base the count of live tokens
                let leaked = model.len().saturating_sub(calls);
                model.clear();
                log.push(format!("drain, {} calls, forget ({} leaked)", calls, leaked));
                if tok_live() - base != leaked as i64 { bad("C17", "zst-token-forgotten-drain", format!("{}: {} tokens alive after a forgotten Drain that still held {}", label, tok_live() - base, leaked), &log, out); }
                // the leaked ones are written off by ending this history here
                // further use and drop; a cache that panics here (its table and list disagree) is a C17 verdict, not a harness crash
                let r = std::panic::catch_unwind(std::panic::AssertUnwindSafe(|| {
                    let mut c = c;
                    for e in 0..3u32 { let _ = c.insert(mk_k(e), Tok::new()); let _ = c.remove(&mk_k(e)); }
                    let len = c.len();
                    let mid = tok_live();
                    drop(c);
                    (len, mid, tok_live())
                }));
                match r {
                    Ok((len, mid, end)) => {
                        if len != 0 || mid - base != leaked as i64 { bad("C17", "zst-token-forgotten-drain", format!("{}: further use after a forgotten Drain: len() = {}, {} tokens alive, {} were leaked", label, len, mid - base, leaked), &log, out); }
                        if end - base != leaked as i64 { bad("C17", "zst-token-forgotten-drain", format!("{}: dropping the cache after a forgotten Drain changed the number of live tokens to {} ({} were leaked)", label, end - base, leaked), &log, out); }
                    }
                    Err(_) => bad("C17", "zst-token-forgotten-drain", format!("{}: the cache panicked during insert/remove/drop after a forgotten Drain ({} calls)", label, calls), &log, out),
                }
                out.stats.eval("C17", mix(&[7400, calls.min(9) as u64, leaked.min(9) as u64, label.len() as u64]));
                out.stats.events += 1; out.stats.histories += 1;
                return;
            }
            _ => { if rng.chance(1, 2) { c.clear(); model.clear(); "clear".to_string() } else { let m = rng.next(); c.retain(|k, _| (m >> (kid(k) % 64)) & 1 == 1); model.retain(|e| (m >> (e.0 % 64)) & 1 == 1); "retain".to_string() } }
        };
        log.push(what);
        out.stats.events += 1;
        out.stats.count("zst_token_events");
        out.stats.eval("C02", mix(&[7300, kind, model.len().min(8) as u64, label.len() as u64]));
        out.stats.eval("C06", mix(&[7301, kind, model.len().min(8) as u64, label.len() as u64]));
        let got: Vec<u32> = c.iter().map(|(k, _)| kid(k)).collect();   // LRU -> MRU
        let want: Vec<u32> = model.iter().map(|e| e.0).collect();
        let sum: u128 = model.iter().map(|e| e.1 as u128).sum();
        if got != want || c.len() != model.len() || c.current_size() as u128 != sum || c.current_size() > c.max_size() {
            bad("C02", "zst-token-model", format!("{}: keys LRU->MRU {:?}, len() = {}, current_size() = {}; the model holds {:?} with sizes summing to {} (limit {})", label, got, c.len(), c.current_size(), want, sum, max), &log, out);
            std::mem::forget(c); TOK_DROPPED.with(|d| d.set(d.get() + (tok_live() - base).max(0) as u64));
            return;
        }
        if tok_live() - base != model.len() as i64 { bad("C06", "zst-token-count", format!("{}: {} zero-sized tokens are alive, the cache holds {} and nothing else holds any", label, tok_live() - base, model.len()), &log, out); }
    }
    let how = rng.below(3);
    match how { 0 => drop(c), 1 => { c.clear(); if tok_live() != base { bad("C06", "zst-token-count", format!("{}: {} zero-sized tokens alive after clear()", label, tok_live() - base), &log, out); } drop(c); } _ => { let n = c.drain().count(); if n != model.len() { bad("C06", "zst-token-count", format!("{}: drain yielded {} of {}", label, n, model.len()), &log, out); } drop(c); } }
    out.stats.countf(format_args!("c06_typevar_{}_{}", label, ["drop", "clear", "drain"][how as usize]));
    if tok_live() != base { bad("C06", "zst-token-count", format!("{}: after the cache is gone ({}) {} zero-sized tokens remain alive (negative: dropped more often than made)", label, ["drop", "clear+drop", "drain+drop"][how as usize], tok_live() - base), &log, out); TOK_DROPPED.with(|d| d.set(TOK_MADE.with(|m| m.get()))); }
    out.stats.histories += 1;
}

pub fn run_zst_tokens_all(rng: &mut Rng, out: &mut RunOut) {
    run_zst_tokens::<u32>("K=u32,V=zst-token", |i| i, |k| *k, 6, rng, out);
    run_zst_tokens::<()>("K=(),V=zst-token", |_| (), |_| 0, 1, rng, out);
    run_zst_tokens::<String>("K=String,V=zst-token", |i| format!("k{}", i), |k| k[1..].parse().unwrap(), 5, rng, out);
}

pub fn run_layouts(seed: u64, rounds: u64, out: &mut RunOut) {
    let mut rng = Rng::new(seed ^ 0x1a10);
    for _ in 0..rounds {
        lay_u8_u8(&mut rng, out); lay_u16_u16(&mut rng, out); lay_bool_u8(&mut rng, out); lay_u32_unit(&mut rng, out); lay_u128_u64(&mut rng, out);
        run_zst_tokens_all(&mut rng, out); lay_u128_u128(&mut rng, out); lay_pair_u8(&mut rng, out); lay_u64_arr3(&mut rng, out); lay_u128_vecstring(&mut rng, out);
    }
}

pub fn run_typevar(seed: u64, budget_events: u64, out: &mut RunOut) {
    let mut rng = Rng::new(seed);
    while out.stats.events < budget_events {
        match rng.below(5) { 0 => run_key_tracked_u64(&mut rng, out), 1 => run_val_tracked_u32(&mut rng, out), 2 => run_key_tracked_str(&mut rng, out), 3 => { run_zst_tokens::<u32>("K=u32,V=zst-token", |i| i, |k| *k, 6, &mut rng, out); run_zst_tokens::<()>("K=(),V=zst-token", |_| (), |_| 0, 1, &mut rng, out); } _ => run_both_tracked(&mut rng, out) }
    }
}
