"""Per-property execution plans, non-vacuity floors, evidence rules.

A job = one harness sub-command in one build mode, run as `shards` processes.
budget = work units per shard (events, cases, ...) per tier.
reports_to = properties for which a sanitizer / interpreter / crash report of this job is a verdict.
"""


def hist(profile, shards, quick, thorough, mode="native", reports_to=(), tiers=("quick", "thorough"), extra=()):
    return {"mode": mode, "cmd": "hist", "args": ["--profile", profile] + list(extra), "shards": shards,
            "budget": {"quick": quick, "thorough": thorough}, "reports_to": list(reports_to), "tiers": tiers}


MEM = ("C06", "C07", "C12", "C14", "C16", "C17")


def msjob(cmd, mode, shards, args, **kw):
    return job(cmd, mode, shards, args, bin="lruverif_ms", **kw)


def job(cmd, mode, shards, args, budget=None, budget_arg="events", reports_to=(), tiers=("quick", "thorough"), **kw):
    d = {"mode": mode, "cmd": cmd, "args": list(args), "shards": shards, "budget": budget, "budget_arg": budget_arg, "reports_to": list(reports_to), "tiers": tiers}
    d.update(kw)
    return d


def enum_iter(mode, shards, max_n, forget, random=0, extra=3, bare=False, tiers=("quick", "thorough"), reports_to=MEM, **kw):
    args = ["--max-n", str(max_n), "--extra", str(extra), "--forget", str(int(forget)), "--random", str(random), "--markers", "1" if mode != "native" else "0"]
    if bare:
        args += ["--bare", "1"]
    return job("enum_iter", mode, shards, args, reports_to=reports_to, tiers=tiers, exhaustive=True, **kw)


def enum_retain(mode, shards, max_n, random=0, bare=False, tiers=("quick", "thorough"), **kw):
    args = ["--max-n", str(max_n), "--random", str(random), "--markers", "1" if mode != "native" else "0"]
    if bare:
        args += ["--bare", "1"]
    return job("enum_retain", mode, shards, args, reports_to=MEM, tiers=tiers, exhaustive=True, **kw)


LEAK_OK_MIRI = "-Zmiri-ignore-leaks"
ASAN_NOLEAK = "halt_on_error=1:abort_on_error=0:detect_leaks=0:exitcode=99:allocator_may_return_null=1"

PLANS = {
    "C01": [job("inject", "native", 4, [], budget={"quick": 20000, "thorough": 500000}, budget_arg="cases"), job("modelrun", "native", 2, [], budget={"quick": 400000, "thorough": 8000000}), hist("big", 1, 40000, 300000), hist("realloc", 1, 480000, 3000000), hist("bound", 10, 480000, 7500000), hist("evict", 2, 480000, 4500000), hist("extreme", 2, 320000, 3000000),
            hist("extreme", 2, 320000, 3000000, mode="wrap"), job("realheap", "native", 2, [], budget={"quick": 300000, "thorough": 5000000})],
    "C02": [job("modelrun", "native", 2, [], budget={"quick": 400000, "thorough": 8000000}), job("typevar", "native", 1, ["--layouts", "400"]), hist("big", 1, 40000, 300000), hist("realloc", 1, 480000, 3000000), hist("bound", 8, 480000, 7500000), hist("mutate", 3, 480000, 4500000), hist("ledger", 1, 480000, 3000000), hist("extreme", 2, 320000, 3000000),
            hist("extreme", 2, 320000, 3000000, mode="wrap"), job("realheap", "native", 2, [], budget={"quick": 400000, "thorough": 6000000})],
    "C03": [job("modelrun", "native", 2, [], budget={"quick": 400000, "thorough": 8000000}), hist("big", 1, 40000, 300000), hist("realloc", 1, 480000, 3000000), hist("evict", 14, 480000, 9000000), hist("mixed", 2, 480000, 4500000)],
    "C04": [job("modelrun", "native", 2, [], budget={"quick": 400000, "thorough": 8000000}), job("hashscale", "native", 1, [], budget={"quick": 200, "thorough": 50000}, budget_arg="rounds"), job("aliaskeys", "native", 2, [], budget={"quick": 400000, "thorough": 8000000}), job("bigcap", "native", 1, [], budget={"quick": 2000, "thorough": 100000}, budget_arg="max-n"), hist("big", 1, 40000, 300000), hist("map", 12, 480000, 9000000), hist("realloc", 2, 480000, 4500000), hist("mixed", 2, 480000, 4500000)],
    "C05": [job("inject", "native", 4, [], budget={"quick": 20000, "thorough": 500000}, budget_arg="cases"), job("modelrun", "native", 2, [], budget={"quick": 400000, "thorough": 8000000}), hist("big", 1, 40000, 300000), job("interleave", "native", 4, [], budget={"quick": 300000, "thorough": 5000000}), hist("order", 12, 480000, 9000000), hist("realloc", 2, 480000, 4500000), hist("mixed", 2, 480000, 4500000)],
    "C06": [job("typevar", "native", 2, [], budget={"quick": 1500000, "thorough": 30000000}), job("typevar", "asan", 1, [], budget={"quick": 300000, "thorough": 5000000}, reports_to=MEM),
            job("typevar", "miri", 2, [], budget={"quick": 60, "thorough": 1500}, reports_to=MEM), hist("big", 1, 40000, 300000), hist("realloc", 1, 480000, 3000000), hist("ledger", 10, 480000, 6000000), hist("mixed", 2, 480000, 3000000),
            hist("ledger", 8, 100000, 2000000, mode="asan", reports_to=MEM),
            hist("ledger", 16, 300, 4000, mode="miri", reports_to=MEM, extra=["--bare", "1"]),
            enum_iter("native", 4, 5, False, tiers=("quick",)), enum_iter("native", 8, 8, False, tiers=("thorough",))],
    "C07": [job("modelrun", "native", 2, [], budget={"quick": 400000, "thorough": 8000000}), job("hashscale", "native", 1, [], budget={"quick": 200, "thorough": 50000}, budget_arg="rounds", reports_to=MEM), job("modelrun", "asan", 2, [], budget={"quick": 100000, "thorough": 2000000}, reports_to=MEM), job("modelrun", "miri", 4, [], budget={"quick": 150, "thorough": 2500}, reports_to=MEM),
            job("aliaskeys", "asan", 1, [], budget={"quick": 100000, "thorough": 2000000}, reports_to=MEM), job("aliaskeys", "miri", 2, [], budget={"quick": 150, "thorough": 2500}, reports_to=MEM),
            job("interleave", "native", 4, [], budget={"quick": 300000, "thorough": 5000000}), job("interleave", "asan", 2, [], budget={"quick": 60000, "thorough": 1500000}, reports_to=MEM), hist("realloc", 10, 480000, 6000000), hist("map", 2, 480000, 3000000),
            hist("realloc", 10, 100000, 2000000, mode="asan", reports_to=MEM), hist("big", 2, 20000, 120000, mode="asan", reports_to=MEM), hist("big", 2, 50000, 600000),
            hist("realloc", 16, 300, 4000, mode="miri", reports_to=MEM, extra=["--bare", "1"])],
    "C12": [enum_iter("native", 12, 7, False, random=400, tiers=("quick",)), enum_iter("native", 16, 10, False, random=5000, tiers=("thorough",)),
            enum_iter("asan", 4, 5, False, random=100, tiers=("quick",)), enum_iter("asan", 12, 8, False, random=2000, tiers=("thorough",)),
            enum_iter("miri", 16, 2, False, extra=2, bare=True, tiers=("quick",)), enum_iter("miri", 16, 4, False, extra=2, bare=True, tiers=("thorough",)),
            hist("order", 2, 480000, 3000000)],
    "C13": [job("bigcap", "native", 2, [], budget={"quick": 300000, "thorough": 3000000}, budget_arg="max-n"), hist("big", 1, 40000, 300000), job("churn", "native", 4, [], budget={"quick": 1000000, "thorough": 25000000}, budget_arg="ops"), job("interleave", "native", 2, [], budget={"quick": 200000, "thorough": 3000000}), hist("capacity", 14, 480000, 7500000, reports_to=("C13",)), hist("realloc", 2, 480000, 3000000)],
    "C14": [job("clonefrom", "native", 2, [], budget={"quick": 20000, "thorough": 400000}, reports_to=MEM), job("clone_refusal", "native", 120, ["--case", "{shard}"], abort_ok=True, prop="C14"),
            job("bigcap", "native", 1, [], budget={"quick": 300000, "thorough": 3000000}, budget_arg="max-n"), hist("big", 1, 40000, 300000), hist("realloc", 1, 480000, 3000000), job("interleave", "native", 2, [], budget={"quick": 200000, "thorough": 3000000}), hist("clone", 12, 480000, 7500000), hist("mixed", 2, 480000, 3000000),
            hist("clone", 6, 100000, 2000000, mode="asan", reports_to=MEM),
            hist("clone", 16, 300, 4000, mode="miri", reports_to=MEM, extra=["--bare", "1"])],
    "C15": [hist("big", 1, 40000, 300000), hist("realloc", 1, 480000, 3000000), enum_retain("native", 8, 9, random=300, tiers=("quick",)), enum_retain("native", 16, 12, random=4000, tiers=("thorough",)),
            enum_retain("miri", 16, 3, bare=True, tiers=("quick",)), enum_retain("miri", 16, 5, bare=True, tiers=("thorough",)),
            hist("retain", 6, 480000, 4500000)],
    "C16": [job("inject_big", "native", 2, [], budget={"quick": 150000, "thorough": 600000}, budget_arg="n", reports_to=MEM), job("inject", "native", 12, [], budget={"quick": 40000, "thorough": 1500000}, budget_arg="cases", reports_to=MEM),
            job("inject", "asan", 4, ["--markers", "1"], budget={"quick": 15000, "thorough": 400000}, budget_arg="cases", reports_to=MEM, asan_options=ASAN_NOLEAK),
            job("inject", "miri", 16, ["--markers", "1", "--further-min", "2", "--further-max", "5"], budget={"quick": 25, "thorough": 300}, budget_arg="cases", reports_to=MEM, miri_flags=LEAK_OK_MIRI + " -Zmiri-disable-stacked-borrows")],
    "C17": [job("typevar", "native", 1, [], budget={"quick": 300000, "thorough": 5000000}), enum_iter("native", 8, 6, True, random=300, extra=1, tiers=("quick",)), enum_iter("native", 16, 9, True, random=3000, extra=1, tiers=("thorough",)),
            enum_iter("asan", 4, 5, True, extra=1, tiers=("quick",), asan_options=ASAN_NOLEAK), enum_iter("asan", 12, 7, True, extra=1, random=1000, tiers=("thorough",), asan_options=ASAN_NOLEAK),
            enum_iter("miri", 16, 2, True, extra=1, bare=True, tiers=("quick",), miri_flags=LEAK_OK_MIRI), enum_iter("miri", 16, 4, True, extra=1, bare=True, tiers=("thorough",), miri_flags=LEAK_OK_MIRI)],
    "C18": [job("neg_compile", "native", 1, [], neg_compile=True, prop="C18"), job("autotraits", "native", 1, []), job("exercise", "native", 1, [], bin="lruverif_c18", compile_verdict=True),
            job("sharedref_threads", "native", 2, ["--threads", "4"], budget={"quick": 40, "thorough": 2000}, budget_arg="states", reports_to=("C18", "C19")),
            job("sharedref_threads", "miri", 4, ["--threads", "3"], budget={"quick": 2, "thorough": 30}, budget_arg="states", reports_to=("C18", "C19"))],
    "C19": [job("sharedref", "native", 16, ["--threads", "4"], budget={"quick": 400, "thorough": 6000}, budget_arg="states", reports_to=("C19",)),
            hist("mixed", 4, 200000, 3000000),
            job("sharedref_threads", "miri", 12, ["--threads", "3"], budget={"quick": 2, "thorough": 30}, budget_arg="states", reports_to=("C19",)),
            job("sharedref_threads", "tsan", 8, ["--threads", "4"], budget={"quick": 300, "thorough": 5000}, budget_arg="states", reports_to=("C19",), tiers=("thorough",))],
    "C20": [hist("big", 1, 40000, 300000), job("hashscale", "native", 4, [], budget={"quick": 3000, "thorough": 100000}, budget_arg="rounds"), hist("hash", 12, 480000, 7500000), hist("realloc", 2, 480000, 3000000), hist("evict", 2, 480000, 3000000)],
    "C08": [msjob("memsize", "debug0", 12, [], budget={"quick": 2000, "thorough": 60000}, budget_arg="rounds"),
            job("memsize_total", "debug0", 21, ["--case", "{shard}", "--thread", "main"], budget={"quick": 1000000, "thorough": 4000000}, budget_arg="n", verdict="exit", prop="C08", bin="lruverif_tot"),
            job("memsize_total", "debug0", 21, ["--case", "{shard}", "--thread", "small"], budget={"quick": 1000000, "thorough": 4000000}, budget_arg="n", verdict="exit", prop="C08", bin="lruverif_tot"),
            job("memsize_total", "native", 21, ["--case", "{shard}", "--thread", "small"], budget={"quick": 1000000, "thorough": 10000000}, budget_arg="n", verdict="exit", prop="C08", bin="lruverif_tot")],
    "C09": [msjob("memsize", "debug0", 12, [], budget={"quick": 5000, "thorough": 200000}, budget_arg="rounds")],
    "C10": [job("modelrun", "native", 2, [], budget={"quick": 400000, "thorough": 8000000}), job("typevar", "native", 1, ["--layouts", "400"]), hist("big", 1, 40000, 300000), hist("realloc", 1, 480000, 3000000), hist("insert", 14, 480000, 9000000), hist("mixed", 2, 480000, 4500000)],
    "C11": [job("inject", "native", 4, [], budget={"quick": 20000, "thorough": 500000}, budget_arg="cases"), job("realheap", "native", 1, [], budget={"quick": 300000, "thorough": 5000000}), job("modelrun", "native", 2, [], budget={"quick": 400000, "thorough": 8000000}), hist("big", 1, 40000, 300000), hist("realloc", 1, 480000, 3000000), hist("mutate", 14, 480000, 9000000), hist("mixed", 2, 480000, 4500000)],
}

LEVELS = {p: "exploration" for p in ["C01", "C02", "C03", "C04", "C05", "C06", "C07", "C08", "C09", "C10", "C11", "C12", "C14", "C15", "C19", "C20"]}
LEVELS.update({"C13": "fault_enumeration", "C16": "fault_enumeration", "C17": "fault_enumeration", "C18": "other"})

# Non-vacuity floors: if the monitors did not see the situations the property is about, the run is inconclusive.
FLOORS = {
    "C01": {"c01_bound_checked_after_caught_panic": 50000, "evaluations": {"quick": 300000, "thorough": 10000000}, "distinct": 300, "exact_fit": 500, "one_over": 200, "grow_the_lru": 50, "limit_cur_minus_1": 50, "limit_zero": 50, "limit_max": 50},
    "C02": {"sum:model_ops_": 200000, "evaluations": {"quick": 300000, "thorough": 10000000}, "distinct": 100, "replacements": 1000, "reallocations": 1000, "sum:c11_class0": 200, "sum:c11_class2": 200, "sum:c11_class3": 100, "sum:c11_class4": 100, "c02_realheap_events": 500000, "c02_layout_events": 20000},
    "C03": {"evaluations": {"quick": 300000, "thorough": 10000000}, "distinct": 200, "multi_evictions": 50, "replace_then_evict": 20, "grow_the_lru": 20, "exact_fit_evicts_nothing": 20},
    "C04": {"evaluations": {"quick": 300000, "thorough": 10000000}, "distinct": 300, "each:lookup_": 50, "reallocations": 1000, "max:const_hasher_max_len": 20, "c04_alias_lookups": 100000, "c04_alias_prefix_of_stored_key_that_is_absent": 20000, "c04_path_lookups_with_another_spelling_of_a_stored_key": 10000},
    "C05": {"c05_order_checked_after_caught_panic": 50000, "evaluations": {"quick": 300000, "thorough": 10000000}, "distinct": 100, "each:promote_": 5, "order_checked_after_realloc_len10": 100, "debug_compared": 100},
    "C06": {"evaluations": {"quick": 300000, "thorough": 10000000}, "distinct": 100, "c12_dropped_after_prefix": 500, "each:c06_typevar_": 500},
    "C07": {"evaluations": {"quick": 300000, "thorough": 10000000}, "distinct": 300, "reallocations": {"quick": 10000, "thorough": 300000}, "max:max_len": {"quick": 100, "thorough": 1000}},
    "C12": {"evaluations": {"quick": 20000, "thorough": 200000}, "distinct": 5000, "c12_past_exhaustion": 1000, "c12_dropped_after_prefix": 1000},
    "C13": {"evaluations": {"quick": 50000, "thorough": 1500000}, "distinct": 60, "c13_auto_growth": 500, "c13_shrunk": 500, "c13_alloc_failures_injected": 200, "c13_try_reserve_err_capacity": 200, "c13_with_capacity_inserts": 500, "c13_churn_ops": {"quick": 3000000, "thorough": 90000000}, "c13_bigcap_constructions_20000_plus": 20},
    "C14": {"evaluations": {"quick": 100000, "thorough": 3000000}, "distinct": 100, "c14_ops_with_sibling_caches": 50000, "sum:c14_clone_re": 100, "c14_clone_from_source_capacity_between_target_capacity_and_buckets": 100},
    "C15": {"evaluations": {"quick": 2000, "thorough": 20000}, "distinct": 60},
    "C16": {"evaluations": {"quick": 200000, "thorough": 5000000}, "distinct": 1000, "each:c16_fired_": 20, "c16_hash_panic_in_explicit_rebuild": 1000, "c16_hash_panic_in_growing_insert": 300,
            "c16_further_use_ops": 100000, "c16_dropped_after": 100000, "c16_big_state_injections": 40, "c16_allocation_refused_inside_infallible_rebuild": 2000, "c16_callback_panic_with_allocation_refusal_armed": 2000, "c16_remutate_after_panicked_mutate": 5000, "c16_second_panic_in_further_use": 20000},
    "C17": {"evaluations": {"quick": 10000, "thorough": 100000}, "distinct": 2000, "sum:c17_forgot_": 2000, "c17_forgot_drain": 300, "c17_further_use_ops": 2000, "c17_caches_dropped_after_forget": 1000},
    "C18": {"evaluations": 128, "distinct": 128, "c18_table_rows": 64, "c18_rows_expected_send": 8, "c18_rows_expected_not_send": 56, "c18_moved_across_threads": 20, "c18_nonstatic_exercise_runs": 1, "c18_iterator_autotrait_rows": 112, "c18_programs_that_must_not_compile": 20, "c18_programs_rejected_by_the_borrow_checker": 20},
    "C19": {"evaluations": {"quick": 5000, "thorough": 80000}, "distinct": 100, "c19_shared_ops_under_write_trap": 500000, "c19_thread_runs_under_write_trap": 10000, "c19_state_empty": 50, "c19_state_single": 50,
            "c19_state_tombstoned": 50, "c19_state_const_hasher": 200, "c19_thread_runs_race_detector": 20, "max:c19_max_len": 30, "c19_deep_states": 50, "max:c19_deep_state_max_colliding_len": 4000},
    "C20": {"evaluations": {"quick": 300000, "thorough": 10000000}, "distinct": 150, "c20_rebuilds": 2000, "c20_with_departures": 5000, "c20_scale_ops_n16384": 5000, "c20_scale_ops_n1024": 5000, "c20_scale_rebuilds": 500, "c20_scale_mass_ejections": 1000, "c20_giant_rebuilds": 2, "max:c20_giant_rebuild_max_len": 4500000, "max:c20_scale_mass_ejection_max_departures": 10000},
    "C08": {"evaluations": {"quick": 500000, "thorough": 20000000}, "distinct": 3000, "c08_bulk_shapes_checked": 100000, "c08_totality_cases_debug0": 42, "c08_totality_cases_native": 21, "c08_measured_while_locked_elsewhere": 10, "c08_boxes_of_user_defined_unsized_types": 1000, "c08_values_with_user_defined_leaves": 10000},
    "C09": {"evaluations": {"quick": 100000, "thorough": 4000000}, "distinct": 400, "c09_exact_values": 80000, "c09_bounded_values": 5000, "c09_values_holding_memory": 50000},
    "C10": {"sum:model_ops_": 200000, "evaluations": {"quick": 100000, "thorough": 3000000}, "distinct": 40, "each:c10_": 100},
    "C11": {"sum:model_ops_": 200000, "c11_completed_mutate_of_entry_with_stale_record": 2000, "c11_realheap_mutates_in_stale_clone": 1000, "evaluations": {"quick": 100000, "thorough": 3000000}, "distinct": 30, "each:c11_class": 10},
}

RULES = {
    "C01": "Generated operation histories (boundary-directed sizes: exact fit, one over, k evictions; limits 0..usize::MAX; all hashers and initial capacities; an extreme sub-profile with sizes up to 2^64 in checked and wrapping arithmetic builds). After every single public call: current_size() <= max_size() and the u128 sum of entry_size over the entries the hook walk finds <= max_size(). evaluations = events checked; distinct = abstract transitions (operation kind, fit class, #departures class, limit class, hasher kind, target position) seen at least once.",
    "C02": "Same histories; after every event current_size() == u128 sum of entry_size(key,value) over held entries == sum of the sizes recorded inside the entries (hook), len() == number of entries, current_size()==0 iff is_empty(), each recorded size == entry_size of its pair. distinct = (operation kind, #departures class, target position, reallocated?, outcome, length class).",
    "C03": "Histories that keep the cache full; for each event the set of entries that left is compared with the shortest LRU prefix computed (u128) from the pre-state's recorded sizes; evicted keys' drop order must be LRU order. distinct = (operation kind, #evictions class, exact-fit/one-over, target position, key present?, hasher).",
    "C04": "Histories over tiny key universes, all hashers incl. constant, owned and borrowed key forms, reallocation anywhere; every return value and every lookup of every id after every event is compared with unique-id map semantics computed from the pre-state; untouched keys must keep their (key uid, value uid). distinct = (operation kind, target position, present?, hasher, reallocated?, length class, key form).",
    "C05": "Histories with promotions at every position and reallocation in between; after each event the order of the survivors (hook walk, iter, rev, keys, values, peek_lru/mru, parsed Debug) must equal spec(pre-order, operation) (Debug output is only required to show exactly the entries held; its order is recorded, not judged). distinct = (operation kind, target position, reallocated?, length class, promoting?, #departures class).",
    "C06": "Identity-level drop ledger: every key/value object has a unique id; after every event 'objects alive == objects in the caches + objects handed back' and no id is ever dropped twice; histories end by drop, clear, drain, into_iter/into_keys/into_values consumed from either end for any number of steps; plus every next/next_back string on owning iterators for small lengths; plus the same exactly-once ledger over type configurations that differ in drop glue (LruCache<TKey,u64>, <u32,TVal>, <TKey,&str>, <TKey,TVal>) with every way of ending; the same workloads under AddressSanitizer+LeakSanitizer and Miri (leak check on). distinct = (operation kind, #drops class, #handed back, #caches, outcome).",
    "C07": "Observation gate after every event: hook walk forward == reverse(backward), == len(), node set == occupied buckets, link symmetry (G1); iter/rev/keys/values/peek_lru/peek_mru == walk (G2); contains/peek/peek_entry of every id (both key forms) find exactly the walked node (G3); returned references point into the walked nodes. Reallocation-heavy histories natively, under ASan (caches to thousands of entries) and under Miri. distinct = (operation kind, length class, reallocated?, hasher, post length class).",
    "C12": "Exhaustive enumeration: for each of the 7 iterator kinds, every cache length 0..=N and EVERY string over {next, next_back} of length <= len+3 (calls past exhaustion and drop-after-prefix included), on caches whose list order differs from bucket order, followed by further use of the cache; plus random strings on lists up to 60. Yields compared with the spec computed from the observed pre-state; drain aftermath; ledger for unconsumed entries. distinct = (kind, length, #calls, #backs, call-string bits).",
    "C13": "Histories with capacity operations anywhere (arguments 0, small, len, capacity+-1, usize::MAX, usize::MAX-len), allocator refusal injected into try_reserve at its 1st..3rd allocation (a refusal the library does not handle aborts the process: reported through the process status and the marker of the call), automatic growth compared with the capacity a fresh with_capacity(2*len) table gets from the library itself, with_capacity(n) promise (also for n up to 3*10^5 quick / 3*10^6 thorough in a dedicated run with reserve/shrink at that scale), growth bound tracked per history, constant-length churn of 10^6-10^8 operations. distinct = (operation, rebuilt?, length class, argument class, outcome).",
    "C14": "Clone checked against its source right after clone() (ids, order, recorded sizes, scalars, capacity, disjoint object ids and node addresses, source fingerprint unchanged); afterwards every operation on any cache must leave every sibling cache's observation and structural fingerprint unchanged; `clone_from` between clones and independently constructed caches (own hasher instance, other limit and capacity) must make the target equal to the source in the same sense. Also under ASan and Miri (shared ownership would be a double free). distinct = (length class, hasher, tombstones?, ...) and (operation, sibling length).",
    "C15": "Exhaustive enumeration of all 2^n reject-subsets (by recency position) for n <= N on caches with shuffled recency order, tombstones and a reallocation; predicate call log must equal the pre-order with the stored addresses; survivors, len/current_size, ledger of rejected objects. Plus patterned/random predicates on lists up to 60 and retain inside random histories. distinct = (length class, subset shape, #rejected class, hasher).",
    "C16": "Fault enumeration: small cache states built by random histories (0-14 events, universe 3-8, all hashers, incl. table exactly full and cache full); for each state ~40 operations covering the whole mutating and cloning API; a counting run yields the number of user callbacks per class (hash, eq, clone, key size, value size, mutate closure, retain predicate); then for EVERY class and EVERY index n the state is rebuilt by replay, the n-th callback panics, and the monitor checks: hook walk both ways mirrors / == len() / node set == buckets, public traversals and lookups agree, current_size == sum of recorded sizes, no held object dropped, no double drop; closure panics additionally bound + nothing lost; then 6-20 further random operations with the same checks, then drop. A second cache (independently built) is present so that clone_from is injected into as well. A separate run injects Hash panics at the first, last, power-of-two and random positions of table rebuilds and clones of caches with 10^4-6*10^5 entries. Same under ASan and Miri (touching a freed bucket is a hard report). evaluations = injected panics that fired; distinct = (operation, class, index, state length, hasher, rebuilt?, post length).",
    "C17": "Fault enumeration: for each of the 7 iterator kinds, every length 0..=N and every next/next_back string of length <= len+1, the iterator is mem::forget-ed; afterwards the cache (if any) is observed (gate G1-G3), must not list any object the iterator handed out, is used by ~12 further operations with all transition oracles on, and is dropped; the ledger must show no double drop. Same under ASan (leak check off) and Miri (-Zmiri-ignore-leaks).",
    "C18": "Auto-trait truth table read at run time: a trait probe (inherent associated const on Probe<T: Send> shadowing a blanket trait const) is instantiated for LruCache<K, V, S> with K, V, S ranging over {u8 (Send+Sync), Cell<u8> (Send only), MutexGuard<'static, u8> (Sync only), Rc<u8> (neither)} = 64 types x {Send, Sync}; every entry must equal 'all three are Send' / 'all three are Sync'. The probe is first checked on types with known auto traits. The positive direction is exercised: caches are moved to another thread, mutated there and moved back; &cache is shared by 3-4 reader threads natively and under Miri's race detector; a separate exercise program does the same with NON-'static parameters (keys, values and hasher borrowing from a local, scoped threads) — if it stops compiling while the rest of the harness builds, that is reported as a violation with the compiler's message. NOT decided: the borrowing/lifetime sentence of C18 (a statement about programs the compiler rejects; no execution can witness it).",
    "C19": "(a) MMU write trap: the boxed cache, its table, seal and all keys/values are built inside an mmap arena which is then mprotect-ed read-only; every shared-reference operation (peek/peek_entry/contains for every present and absent id in both key forms, peek_lru/mru, len/is_empty/current_size/max_size/capacity/hasher, iter/keys/values forward, backward and interleaved, Debug, clone + drop of the clone, the hook walk) runs on one thread and then on 4 threads at once; any store into the arena, even of the value already there, raises SIGSEGV -> WRITE-TRAP. (b) byte hash of the arena region and full observation before/after. (c) the same operations from 3 threads under Miri (happens-before race detector) and (d, thorough) ThreadSanitizer. Plus the fingerprint facet on every &self operation inside random histories. distinct = (length class, hasher, tombstones?, table full?, threads).",
    "C20": "Hash-call counter (owned + borrowed key forms) read around every API call: <= 2 + departures, + held entries only when the hook shows the table was re-allocated by an operation allowed to rebuild; == 0 for traversals, clear, drain, peek_lru/peek_mru. distinct = (operation, length class, #departures class, rebuilt?, #hashes).",
    "C08": "Type matrix of 345 concrete nestings (115 hand-picked + 23 constructors x 10 inner types) of the supported constructors (leaves, String/OsString/CString/PathBuf, Vec, Box<sized/slice/str/CStr/Path>, arrays of length 0/1/3 incl. arrays of arrays, tuples of arity 1-10, Option, Result, Wrapping, all range types, Mutex, RwLock, BinaryHeap, HashMap, HashSet, references) with random spare capacity at every level. For each random value: mem_size == value_size + heap_size, value_size == size_of, heap_size == an independently written composition law (u128). For random vectors of each type: the four bulk helpers == element-wise sums over 9 iterator shapes (plain, rev, skip/take, step_by, index-mapped with repeats, empty, filtered, chained, take_while) - exact-size variants on the exact-size shapes; unsized elements ([String], str, Path, CStr) through references; Mutex/RwLock measured while another thread holds the lock for a moment; user-defined leaves (a zero-sized type with non-zero heap_size, a type with a declared heap size). Totality: 18 big inputs (10^6-10^7 elements, runs of zero-length arrays, ZSTs) each in its own process built at opt-level 0 and in release, on the main thread and on a default 2 MiB thread; verdict = exit status. distinct = (type, shape/helper, value class).",
    "C09": "Same 345-type matrix; each value is built INSIDE an attribution scope of the harness' counting global allocator by a random plan of with_capacity / push / reserve / reserve_exact / shrink_to / shrink_to_fit / truncate / pop / into_boxed_* steps at every nesting level; heap_size() must equal the live bytes attributed to the value (exactly, for everything not containing a hash table); for values containing HashMap/HashSet: capacity x entry size + elements <= heap_size <= live bytes; references contribute 0 (their targets are allocated outside the scope). distinct = (type, holds memory?, exact?, size class).",
    "C10": "insert/try_insert with sizes aimed at both sides of every threshold; classification, payload, identity of the returned pair and 'nothing changed' computed from the pre-state. distinct = (insert|try_insert, which failure conditions hold at once, boundary hit, length class, cache exactly full?).",
    "C11": "mutate at every position with shrink / same / fits / needs k evictions / too large; closure-ran flag, forwarded token, order, recorded size (hook), evictions and error payload compared with the spec computed from the pre-state. distinct = (present?, size-change class, position, #evictions class, exact fit, length class).",
}

ASSUMPTIONS = {
    "*": ["executions only: the verdict covers the histories/cases actually run (counts above), not all inputs",
          "instrumented key/value types (TKey/TVal with declared heap sizes, unique ids) stand for arbitrary K, V",
          "the verif-hooks feature only adds a read-only walker; the library code under test is otherwise the working tree of /repo"],
    "C01": ["every single entry size is representable in usize (sums are not restricted)"],
    "C02": ["declared sizes change only inside mutate (no interior mutability)"],
}
