//! C06 over type configurations: the same ledger oracle with key/value types that differ in
//! whether they have drop glue (`LruCache<TKey, u64>`, `LruCache<u32, TVal>`, `LruCache<TKey, &str>`),
//! because code may (legitimately or not) branch on `mem::needs_drop`.

use crate::engine::{Failure, RunOut};
use crate::gen::HistCfg;
use crate::rng::{mix, Rng};
use crate::types::*;
use lru_mem::LruCache;

fn fail(out: &mut RunOut, sig: &str, msg: String, log: &[String]) {
    *out.viol_counts.entry("C06").or_insert(0) += 1;
    if out.failures.iter().filter(|f| f.prop == "C06" && f.sig == sig).count() < 3 {
        let cfg = HistCfg { hk: 3, cap0: None, max: 0, universe: 0, events: 0, extreme: false };
        out.failures.push(Failure { prop: "C06", sig: sig.to_string(), msg, cfg, ops: vec![log.join("; ")], at: 0, inject: None, rerun: true });
    }
}

macro_rules! variant {
    ($fname:ident, $label:expr, $K:ty, $V:ty, $mk_k:expr, $mk_v:expr, $kid:expr) => {
        pub fn $fname(rng: &mut Rng, out: &mut RunOut) {
            ledger_reset(); ledger_strict(true);
            let mk_k: fn(u32) -> $K = $mk_k; let mk_v: fn(u64) -> $V = $mk_v; let kid: fn(&$K) -> u32 = $kid;
            let universe = rng.range(3, 14) as u32;
            let e0 = lru_mem::entry_size(&mk_k(0), &mk_v(0));
            let _ = ledger_take_errors();
            let max = match rng.below(5) { 0 => usize::MAX, 1 => e0 * 2, _ => e0 * rng.range(2, 10) + rng.usize_below(e0) };
            let hk = TH_KINDS[rng.usize_below(TH_KINDS.len())];
            let mut caches: Vec<LruCache<$K, $V, TH>> = vec![if rng.chance(1, 2) { LruCache::with_hasher(max, TH(hk, next_hasher_seed())) } else { LruCache::with_capacity_and_hasher(max, rng.usize_below(20), TH(hk, next_hasher_seed())) }];
            let mut log: Vec<String> = vec![format!("{} max={} hk={}", $label, max, hk)];
            let n = rng.range(0, 60);
            let mut stamp = 1u64;
            for _ in 0..n {
                let id = rng.below(universe as u64) as u32;
                let ci = rng.usize_below(caches.len());
                let c = &mut caches[ci];
                stamp += 1;
                let what: String = match rng.below(14) {
                    0..=4 => { let _ = c.insert(mk_k(id), mk_v(stamp)); format!("#{} insert {}", ci, id) }
                    5 => { let _ = c.try_insert(mk_k(id), mk_v(stamp)); format!("#{} try_insert {}", ci, id) }
                    6 => { let probe = mk_k(id); let _ = c.remove(&probe); format!("#{} remove {}", ci, id) }
                    7 => { let _ = c.remove_lru(); format!("#{} remove_lru", ci) }
                    8 => { let _ = c.remove_mru(); format!("#{} remove_mru", ci) }
                    9 => { let probe = mk_k(id); let _ = c.get(&probe); let _ = c.mutate(&probe, |_v| ()); format!("#{} get/mutate {}", ci, id) }
                    10 => { let m = rng.next(); c.retain(|k, _| (m >> (kid(k) % 64)) & 1 == 1); format!("#{} retain", ci) }
                    11 => { match rng.below(4) { 0 => c.reserve(rng.usize_below(30)), 1 => c.shrink_to_fit(), 2 => c.set_max_size(c.current_size() / 2), _ => c.set_max_size(max) } format!("#{} capacity/limit", ci) }
                    12 => { if caches.len() < 3 { if rng.chance(1, 2) { let d = caches[ci].clone(); caches.push(d); } else { let m2 = if rng.chance(1, 2) { max } else { e0 * rng.range(1, 6) }; caches.push(LruCache::with_capacity_and_hasher(m2, rng.usize_below(40), TH(hk, next_hasher_seed()))); } }
                        else { let src = (ci + 1) % caches.len(); if ci < src { let (l, r) = caches.split_at_mut(src); l[ci].clone_from(&r[0]); } else { let (l, r) = caches.split_at_mut(ci); r[0].clone_from(&l[src]); } }
                        format!("#{} clone / new cache / clone_from", ci) }
                    _ => { if rng.chance(1, 3) { c.clear(); } format!("#{} clear?", ci) }
                };
                log.push(what);
                out.stats.events += 1;
                for e in ledger_take_errors() { fail(out, "typevar-double-drop", format!("{}: {}", $label, e), &log); }
            }
            // every way of ending, with partial consumption from either end
            while let Some(mut c) = caches.pop() {
                let len = c.len();
                let calls: Vec<bool> = (0..rng.usize_below(len + 3)).map(|_| rng.chance(1, 2)).collect();
                let how = rng.below(6);
                let desc = format!("end: {} with calls {}", ["drop", "clear+drop", "drain", "into_iter", "into_keys", "into_values"][how as usize], calls.iter().map(|b| if *b { 'B' } else { 'F' }).collect::<String>());
                log.push(desc);
                match how {
                    0 => drop(c),
                    1 => { c.clear(); drop(c); }
                    2 => { { let mut it = c.drain(); let mut held = Vec::new(); for b in &calls { if let Some(x) = if *b { it.next_back() } else { it.next() } { held.push(x); } } } drop(c); }
                    3 => { let mut it = c.into_iter(); let mut held = Vec::new(); for b in &calls { if let Some(x) = if *b { it.next_back() } else { it.next() } { held.push(x); } } }
                    4 => { let mut it = c.into_keys(); let mut held = Vec::new(); for b in &calls { if let Some(x) = if *b { it.next_back() } else { it.next() } { held.push(x); } } }
                    _ => { let mut it = c.into_values(); let mut held = Vec::new(); for b in &calls { if let Some(x) = if *b { it.next_back() } else { it.next() } { held.push(x); } } }
                }
                out.stats.eval("C06", mix(&[7000, how, len.min(9) as u64, calls.len().min(9) as u64, $label.len() as u64]));
                out.stats.countf(format_args!("c06_typevar_{}_{}", $label, ["drop", "clear", "drain", "into_iter", "into_keys", "into_values"][how as usize]));
                for e in ledger_take_errors() { fail(out, "typevar-double-drop", format!("{}: {}", $label, e), &log); }
            }
            if ledger_live() != 0 {
                fail(out, "typevar-leak", format!("{}: after every cache and everything obtained from them is gone, {} tracked objects were never dropped (e.g. {:?})", $label, ledger_live(), ledger_live_uids(100000).into_iter().take(5).collect::<Vec<_>>()), &log);
            }
            out.stats.histories += 1;
            ledger_reset();
        }
    };
}

variant!(run_key_tracked_u64, "K=TKey,V=u64", TKey, u64, |id| TKey::new(id, 0), |s| s, |k: &TKey| k.id);
variant!(run_val_tracked_u32, "K=u32,V=TVal", u32, TVal, |id| id, |_s| TVal::new(0), |k: &u32| *k);
variant!(run_key_tracked_str, "K=TKey,V=&str", TKey, &'static str, |id| TKey::new(id, 0), |_s| "v", |k: &TKey| k.id);
variant!(run_both_tracked, "K=TKey,V=TVal", TKey, TVal, |id| TKey::new(id, 0), |_s| TVal::new(0), |k: &TKey| k.id);

/// Accounting against the public `entry_size` for key/value types with unusual layout (narrow pairs whose size is not a
/// multiple of 8, over-aligned u128, zero-sized values, arrays): C02's identity and C10's thresholds are about
/// `entry_size(key, value)` for whatever K and V are.
macro_rules! layout_variant {
    ($fname:ident, $label:expr, $K:ty, $V:ty, $mk_k:expr, $mk_v:expr) => {
        pub fn $fname(rng: &mut Rng, out: &mut RunOut) {
            let mk_k: fn(u32) -> $K = $mk_k; let mk_v: fn(u32) -> $V = $mk_v;
            let e = lru_mem::entry_size(&mk_k(0), &mk_v(0));
            let log = vec![format!("{} entry_size={}", $label, e)];
            let mut bad = |prop: &'static str, sig: &str, msg: String, out: &mut RunOut| {
                *out.viol_counts.entry(prop).or_insert(0) += 1;
                if out.failures.iter().filter(|f| f.prop == prop && f.sig == sig).count() < 3 {
                    let cfg = HistCfg { hk: 4, cap0: None, max: 0, universe: 0, events: 0, extreme: false };
                    out.failures.push(Failure { prop, sig: sig.to_string(), msg, cfg, ops: log.clone(), at: 0, inject: None, rerun: true });
                }
            };
            // thresholds of C10 with the public figure
            for (limit, fits) in [(e - 1, false), (e, true)] {
                let mut c: LruCache<$K, $V> = LruCache::new(limit);
                let r = c.insert(mk_k(1), mk_v(1)).is_ok();
                let mut c2: LruCache<$K, $V> = LruCache::new(limit);
                let r2 = c2.try_insert(mk_k(1), mk_v(1)).is_ok();
                out.stats.eval("C10", mix(&[7100, fits as u64, $label.len() as u64, e as u64]));
                if r != fits || r2 != fits { bad("C10", "layout-threshold", format!("{}: entry_size = {}, limit {}: insert accepted = {}, try_insert accepted = {}, expected {}", $label, e, limit, r, r2, fits), out); }
            }
            {   // two entries fit a limit of exactly 2 x entry_size; a third needs an eviction
                let mut c: LruCache<$K, $V> = LruCache::new(2 * e);
                let a = c.try_insert(mk_k(1), mk_v(1)).is_ok(); let b = c.try_insert(mk_k(2), mk_v(2)).is_ok(); let third = c.try_insert(mk_k(3), mk_v(3)).is_ok();
                if !a || !b || third || c.len() != 2 { bad("C10", "layout-threshold", format!("{}: limit 2 x {}: try_insert results {}/{}/{} (expected ok/ok/rejected)", $label, e, a, b, third), out); }
                if c.current_size() != 2 * e { bad("C02", "layout-sum", format!("{}: two entries held, current_size() = {}, 2 x entry_size = {}", $label, c.current_size(), 2 * e), out); }
            }
            // a short random history with the sum identity after every step
            let n = rng.range(3, 9) as u32;
            let mut c: LruCache<$K, $V> = LruCache::new(e * rng.range(1, 6) + rng.usize_below(e));
            for _ in 0..rng.range(10, 60) {
                let id = rng.below(n as u64 + 2) as u32;
                match rng.below(6) { 0..=2 => { let _ = c.insert(mk_k(id), mk_v(id)); } 3 => { let _ = c.remove(&mk_k(id)); } 4 => { let _ = c.try_insert(mk_k(id), mk_v(id)); } _ => { let m = c.current_size() / 2 + e; c.set_max_size(m); } }
                out.stats.events += 1;
                let sum: u128 = c.iter().map(|(k, v)| lru_mem::entry_size(k, v) as u128).sum();
                out.stats.eval("C02", mix(&[7200, c.len().min(8) as u64, $label.len() as u64]));
                out.stats.count("c02_layout_events");
                if c.current_size() as u128 != sum || c.current_size() > c.max_size() { bad("C02", "layout-sum", format!("{}: current_size() = {}, sum of entry_size over the {} entries = {}, max_size() = {}", $label, c.current_size(), c.len(), sum, c.max_size()), out); break; }
            }
        }
    };
}
layout_variant!(lay_u8_u8, "K=u8,V=u8", u8, u8, |i| i as u8, |i| i as u8);
layout_variant!(lay_u16_u16, "K=u16,V=u16", u16, u16, |i| i as u16, |i| i as u16);
layout_variant!(lay_bool_u8, "K=u8,V=bool", u8, bool, |i| i as u8, |i| i % 2 == 0);
layout_variant!(lay_u32_unit, "K=u32,V=()", u32, (), |i| i, |_| ());
layout_variant!(lay_u128_u64, "K=u128,V=u64", u128, u64, |i| i as u128, |i| i as u64);
layout_variant!(lay_u128_u128, "K=u128,V=u128", u128, u128, |i| i as u128, |i| i as u128);
layout_variant!(lay_pair_u8, "K=(u32,u32),V=u8", (u32, u32), u8, |i| (i, i), |i| i as u8);
layout_variant!(lay_u64_arr3, "K=u64,V=[u8;3]", u64, [u8; 3], |i| i as u64, |i| [i as u8; 3]);
layout_variant!(lay_u128_vecstring, "K=u128,V=Vec<String>", u128, Vec<String>, |i| i as u128, |_| vec![String::new()]);

pub fn run_layouts(seed: u64, rounds: u64, out: &mut RunOut) {
    let mut rng = Rng::new(seed ^ 0x1a10);
    for _ in 0..rounds {
        lay_u8_u8(&mut rng, out); lay_u16_u16(&mut rng, out); lay_bool_u8(&mut rng, out); lay_u32_unit(&mut rng, out); lay_u128_u64(&mut rng, out);
        lay_u128_u128(&mut rng, out); lay_pair_u8(&mut rng, out); lay_u64_arr3(&mut rng, out); lay_u128_vecstring(&mut rng, out);
    }
}

pub fn run_typevar(seed: u64, budget_events: u64, out: &mut RunOut) {
    let mut rng = Rng::new(seed);
    while out.stats.events < budget_events {
        match rng.below(4) { 0 => run_key_tracked_u64(&mut rng, out), 1 => run_val_tracked_u32(&mut rng, out), 2 => run_key_tracked_str(&mut rng, out), _ => run_both_tracked(&mut rng, out) }
    }
}
