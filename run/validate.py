#!/usr/bin/env python3
"""Validate MANIFEST.json and evidence/*.json against the given schemas (needs jsonschema: run with python3-vt)."""
import glob, json, os, sys
import jsonschema
V = os.path.dirname(os.path.dirname(os.path.abspath(__file__)))
bad = 0
def val(path, schema):
    global bad
    try:
        jsonschema.validate(json.load(open(path)), json.load(open(schema)))
    except Exception as e:
        bad += 1
        print("INVALID", path, str(e)[:300])
val(os.path.join(V, "MANIFEST.json"), "/root/.vp/MANIFEST.schema.json")
for f in sorted(glob.glob(os.path.join(V, "evidence", "*.json"))):
    val(f, "/root/.vp/EVIDENCE.schema.json")
for l in open(os.path.join(V, "properties.jsonl")):
    pass
print("validated, %d invalid" % bad)
sys.exit(1 if bad else 0)
