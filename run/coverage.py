#!/usr/bin/env python3
"""Reach audit: which lines of /repo/src do the registered quick workloads actually execute?

  python3 run/coverage.py [--scale 0.25] [--props C01,C02,...]

Builds the harness with -Cinstrument-coverage (nightly, own target dir under /verif/target/cov), runs every
native / wrap / debug0 job of the quick plans (budgets scaled), merges the profiles and writes
/verif/coverage/summary.json + /verif/coverage/uncovered.txt (source lines of /repo/src with an execution count of 0).
Not a check: runtime monitoring decides nothing about code the workloads never reach, so this audit exists to find
such code. Sanitizer / Miri jobs run the same sub-commands and are not repeated here.
"""
import json, os, re, shutil, subprocess, sys
from concurrent.futures import ThreadPoolExecutor
sys.path.insert(0, os.path.dirname(os.path.abspath(__file__)))
from plans import PLANS  # noqa: E402

VERIF = os.path.dirname(os.path.dirname(os.path.abspath(__file__)))
HARNESS = os.path.join(VERIF, "harness")
TD = os.path.join(VERIF, "target", "cov")
PROF = os.path.join(VERIF, "work", "cov")
OUT = os.path.join(VERIF, "coverage")
ENV = dict(os.environ, CARGO_NET_OFFLINE="true", RUSTFLAGS="-Cinstrument-coverage")


def sh(cmd, **kw):
    return subprocess.run(cmd, stdout=subprocess.PIPE, stderr=subprocess.STDOUT, text=True, **kw)


def main():
    a = sys.argv[1:]
    scale = float(a[a.index("--scale") + 1]) if "--scale" in a else 0.25
    props = a[a.index("--props") + 1].split(",") if "--props" in a else sorted(PLANS)
    sysroot = sh(["rustc", "+nightly", "--print", "sysroot"]).stdout.strip()
    tools = os.path.join(sysroot, "lib/rustlib/x86_64-unknown-linux-gnu/bin")
    bins = {}
    for profile, flag, sub in (("native", ["--release"], "release"), ("wrap", ["--profile", "wrap"], "wrap"), ("debug0", [], "debug")):
        p = sh(["cargo", "+nightly", "build", "--offline", "--target-dir", TD, "--bin", "lruverif", "--bin", "lruverif_ms", "--bin", "lruverif_tot", "--bin", "lruverif_c18"] + flag, cwd=HARNESS, env=ENV)
        if p.returncode != 0:
            print(p.stdout[-3000:])
            return 2
        for b in ("lruverif", "lruverif_ms", "lruverif_tot", "lruverif_c18"):
            bins[(profile, b)] = os.path.join(TD, sub, b)
    shutil.rmtree(PROF, ignore_errors=True)
    os.makedirs(PROF)
    jobs = []
    seen = set()
    for prop in props:
        for j in PLANS[prop]:
            if j["mode"] not in ("native", "wrap", "debug0") or "quick" not in j.get("tiers", ("quick",)):
                continue
            for shard in range(j["shards"]):
                argv = [j["cmd"]] + [x.format(seed=0, shard=shard, nshards=j["shards"], tier="quick") for x in j["args"]]
                argv += ["--seed", "0", "--shard", str(shard), "--nshards", str(j["shards"])]
                budget = j["budget"]["quick"] if isinstance(j["budget"], dict) else j["budget"]
                if budget is not None:
                    if j.get("verdict") != "exit" and j["cmd"] not in ("bigcap",):
                        budget = max(1, int(budget * scale))
                    argv += ["--" + j.get("budget_arg", "events"), str(budget)]
                key = (j["mode"], j.get("bin", "lruverif"), tuple(argv))
                if key in seen:
                    continue
                seen.add(key)
                jobs.append(key)

    def run(k):
        mode, b, argv = k
        env = dict(os.environ, LLVM_PROFILE_FILE=os.path.join(PROF, "%p-%m.profraw"))
        try:
            p = subprocess.run([bins[(mode, b)]] + list(argv), cwd=HARNESS, env=env, stdout=subprocess.PIPE, stderr=subprocess.PIPE, text=True, timeout=3000)
            return k, p.returncode
        except subprocess.TimeoutExpired:
            return k, -999
    with ThreadPoolExecutor(16) as ex:
        res = list(ex.map(run, jobs))
    bad = [(k, rc) for k, rc in res if rc not in (0,)]
    print("%d jobs run, %d with non-zero exit" % (len(res), len(bad)))
    for k, rc in bad[:10]:
        print("  rc=%s %s %s" % (rc, k[0], " ".join(k[2])))
    raws = [os.path.join(PROF, f) for f in os.listdir(PROF)]
    merged = os.path.join(PROF, "all.profdata")
    p = sh([os.path.join(tools, "llvm-profdata"), "merge", "-sparse", "-o", merged] + raws)
    if p.returncode != 0:
        print(p.stdout[-2000:])
        return 2
    objs = []
    for b in sorted(set(bins.values())):
        if os.path.exists(b):
            objs += ["-object", b]
    objs = objs[1:]  # first one positional
    p = sh([os.path.join(tools, "llvm-cov"), "export", "-format=lcov", "-instr-profile", merged] + objs)
    lines = {}
    cur = None
    for l in p.stdout.splitlines():
        if l.startswith("SF:"):
            cur = l[3:]
        elif l.startswith("DA:") and cur and cur.startswith("/repo/src/"):
            n, c = l[3:].split(",")[:2]
            d = lines.setdefault(cur, {})
            d[int(n)] = max(d.get(int(n), 0), int(c))
    os.makedirs(OUT, exist_ok=True)
    summary = {}
    with open(os.path.join(OUT, "uncovered.txt"), "w") as fh:
        for f in sorted(lines):
            src = open(f).read().splitlines()
            # the crate's own unit tests (mod test / mod tests at the end of each file) are not compiled into the harness
            unc = sorted(n for n, c in lines[f].items() if c == 0)
            summary[f] = {"instrumented_lines": len(lines[f]), "executed_lines": len(lines[f]) - len(unc), "not_executed": len(unc)}
            for n in unc:
                fh.write("%s:%d: %s\n" % (f, n, src[n - 1] if n - 1 < len(src) else ""))
    json.dump({"scale": scale, "jobs": len(res), "files": summary}, open(os.path.join(OUT, "summary.json"), "w"), indent=1, sort_keys=True)
    for f, s in summary.items():
        print("%-28s executed %5d / %5d instrumented lines" % (f, s["executed_lines"], s["instrumented_lines"]))
    shutil.rmtree(PROF, ignore_errors=True)
    return 0


if __name__ == "__main__":
    sys.exit(main())
