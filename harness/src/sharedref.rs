//! C18 (auto-trait truth table, cross-thread use) and C19 (operations through `&LruCache`
//! never write: MMU write trap over an arena, byte hash, reader threads for the race detectors).

use crate::engine::base_entry_size;
use crate::gen::*;
use crate::obs::*;
use crate::ops::*;
use crate::oracle::{Stats, Viol};
use crate::rng::{mix, Rng};
use crate::types::*;
use lru_mem::LruCache;
use std::marker::PhantomData;

// ------------------------------------------------------------------------------ C18: trait probe

pub struct Probe<T: ?Sized>(PhantomData<T>);
pub trait ProbeDefault { const IS_SEND: bool = false; const IS_SYNC: bool = false; }
impl<T: ?Sized> ProbeDefault for Probe<T> {}
#[allow(dead_code)]
impl<T: ?Sized + Send> Probe<T> { pub const IS_SEND: bool = true; }
pub struct ProbeSync<T: ?Sized>(PhantomData<T>);
pub trait ProbeSyncDefault { const IS_SYNC: bool = false; }
impl<T: ?Sized> ProbeSyncDefault for ProbeSync<T> {}
#[allow(dead_code)]
impl<T: ?Sized + Sync> ProbeSync<T> { pub const IS_SYNC: bool = true; }

type WBoth = u8;                                         // Send + Sync
type WSendOnly = std::cell::Cell<u8>;                    // Send, !Sync
type WSyncOnly = std::sync::MutexGuard<'static, u8>;     // !Send, Sync
type WNeither = std::rc::Rc<u8>;                         // !Send, !Sync

pub struct TraitRow { pub k: &'static str, pub v: &'static str, pub s: &'static str, pub send: bool, pub sync: bool, pub want_send: bool, pub want_sync: bool }

macro_rules! row { ($rows:expr, $k:ty, $ks:expr, $kb:expr, $v:ty, $vs:expr, $vb:expr, $s:ty, $ss:expr, $sb:expr) => {
    $rows.push(TraitRow { k: $ks, v: $vs, s: $ss, send: <Probe<LruCache<$k, $v, $s>>>::IS_SEND, sync: <ProbeSync<LruCache<$k, $v, $s>>>::IS_SYNC,
        want_send: $kb.0 && $vb.0 && $sb.0, want_sync: $kb.1 && $vb.1 && $sb.1 });
} }
macro_rules! rows_s { ($rows:expr, $k:ty, $ks:expr, $kb:expr, $v:ty, $vs:expr, $vb:expr) => {
    row!($rows, $k, $ks, $kb, $v, $vs, $vb, WBoth, "Send+Sync", (true, true)); row!($rows, $k, $ks, $kb, $v, $vs, $vb, WSendOnly, "Send only", (true, false));
    row!($rows, $k, $ks, $kb, $v, $vs, $vb, WSyncOnly, "Sync only", (false, true)); row!($rows, $k, $ks, $kb, $v, $vs, $vb, WNeither, "neither", (false, false));
} }
macro_rules! rows_v { ($rows:expr, $k:ty, $ks:expr, $kb:expr) => {
    rows_s!($rows, $k, $ks, $kb, WBoth, "Send+Sync", (true, true)); rows_s!($rows, $k, $ks, $kb, WSendOnly, "Send only", (true, false));
    rows_s!($rows, $k, $ks, $kb, WSyncOnly, "Sync only", (false, true)); rows_s!($rows, $k, $ks, $kb, WNeither, "neither", (false, false));
} }

pub fn trait_table() -> Vec<TraitRow> {
    let mut rows = Vec::new();
    rows_v!(rows, WBoth, "Send+Sync", (true, true)); rows_v!(rows, WSendOnly, "Send only", (true, false));
    rows_v!(rows, WSyncOnly, "Sync only", (false, true)); rows_v!(rows, WNeither, "neither", (false, false));
    rows
}

/// Auto traits of the iterator types, judged by what soundness needs (any correct implementation satisfies these
/// implications; the crate as it stands makes none of the iterators Send or Sync): an iterator that hands out `&K`/`&V`
/// may cross or be shared between threads only if K / V are Sync, one that hands out K / V by value only if they are Send.
pub fn iter_trait_findings() -> (u64, Vec<String>) {
    let mut bad = Vec::new();
    let mut rows = 0u64;
    macro_rules! it_row { ($k:ty, $ks:expr, $kb:expr, $v:ty, $vs:expr, $vb:expr) => {{
        let (k_send, k_sync): (bool, bool) = $kb; let (v_send, v_sync): (bool, bool) = $vb;
        let mut chk = |name: &str, is_send: bool, is_sync: bool, need_for_send: bool, need_for_sync: bool| {
            rows += 1;
            if is_send && !need_for_send { bad.push(format!("{}<K: {}, V: {}> is Send although what it hands out must not cross threads", name, $ks, $vs)); }
            if is_sync && !need_for_sync { bad.push(format!("{}<K: {}, V: {}> is Sync although what it hands out must not be shared between threads", name, $ks, $vs)); }
        };
        chk("Iter", <Probe<lru_mem::Iter<'static, $k, $v>>>::IS_SEND, <ProbeSync<lru_mem::Iter<'static, $k, $v>>>::IS_SYNC, k_sync && v_sync, k_sync && v_sync);
        chk("Keys", <Probe<lru_mem::Keys<'static, $k, $v>>>::IS_SEND, <ProbeSync<lru_mem::Keys<'static, $k, $v>>>::IS_SYNC, k_sync, k_sync);
        chk("Values", <Probe<lru_mem::Values<'static, $k, $v>>>::IS_SEND, <ProbeSync<lru_mem::Values<'static, $k, $v>>>::IS_SYNC, v_sync, v_sync);
        chk("Drain", <Probe<lru_mem::Drain<'static, $k, $v, WBoth>>>::IS_SEND, <ProbeSync<lru_mem::Drain<'static, $k, $v, WBoth>>>::IS_SYNC, k_send && v_send, k_sync && v_sync);
        chk("IntoIter", <Probe<lru_mem::IntoIter<$k, $v, WBoth>>>::IS_SEND, <ProbeSync<lru_mem::IntoIter<$k, $v, WBoth>>>::IS_SYNC, k_send && v_send, k_sync && v_sync);
        chk("IntoKeys", <Probe<lru_mem::IntoKeys<$k, $v, WBoth>>>::IS_SEND, <ProbeSync<lru_mem::IntoKeys<$k, $v, WBoth>>>::IS_SYNC, k_send && v_send, k_sync && v_sync);
        chk("IntoValues", <Probe<lru_mem::IntoValues<$k, $v, WBoth>>>::IS_SEND, <ProbeSync<lru_mem::IntoValues<$k, $v, WBoth>>>::IS_SYNC, k_send && v_send, k_sync && v_sync);
    }} }
    macro_rules! it_rows_v { ($k:ty, $ks:expr, $kb:expr) => {
        it_row!($k, $ks, $kb, WBoth, "Send+Sync", (true, true)); it_row!($k, $ks, $kb, WSendOnly, "Send only", (true, false));
        it_row!($k, $ks, $kb, WSyncOnly, "Sync only", (false, true)); it_row!($k, $ks, $kb, WNeither, "neither", (false, false));
    } }
    it_rows_v!(WBoth, "Send+Sync", (true, true)); it_rows_v!(WSendOnly, "Send only", (true, false));
    it_rows_v!(WSyncOnly, "Sync only", (false, true)); it_rows_v!(WNeither, "neither", (false, false));
    (rows, bad)
}

/// sanity of the probe itself on types whose auto traits are known
pub fn probe_selftest() -> bool {
    <Probe<WBoth>>::IS_SEND && <ProbeSync<WBoth>>::IS_SYNC && <Probe<WSendOnly>>::IS_SEND && !<ProbeSync<WSendOnly>>::IS_SYNC
        && !<Probe<WSyncOnly>>::IS_SEND && <ProbeSync<WSyncOnly>>::IS_SYNC && !<Probe<WNeither>>::IS_SEND && !<ProbeSync<WNeither>>::IS_SYNC
        && <Probe<Vec<WBoth>>>::IS_SEND && !<Probe<Vec<WNeither>>>::IS_SEND
}

// ------------------------------------------------------------------------------ shared-reference operations

/// Every operation available through `&LruCache`, for every id 0..=universe (present and absent), both key forms.
/// Returns a digest of everything read, so that the work cannot be optimised away and threads can be compared.
pub fn shared_ops<S: HB>(c: &Cache<S>, universe: u32, marker: Option<&str>) -> u64 {
    let mut acc = 0u64;
    let mark = |what: &str| { if let Some(m) = marker { println!("CASE sharedref {} op={}", m, what); } };
    mark("scalars");
    acc = mix(&[acc, c.len() as u64, c.is_empty() as u64, c.current_size() as u64, c.max_size() as u64, c.capacity() as u64]);
    let _ = c.hasher();
    for id in 0..=universe {
        mark("peek/peek_entry/contains borrowed");
        if let Some(v) = c.peek(&KeyId(id)) { acc = mix(&[acc, v.uid, v.check_live() as u64]); }
        if let Some((k, v)) = c.peek_entry(&KeyId(id)) { acc = mix(&[acc, k.uid, v.uid, k.check_live() as u64]); }
        acc = mix(&[acc, c.contains(&KeyId(id)) as u64]);
        mark("peek/peek_entry/contains owned");
        let probe = TKey::new(id, 0);
        if let Some(v) = c.peek(&probe) { acc = mix(&[acc, v.uid]); }
        if let Some((k, v)) = c.peek_entry(&probe) { acc = mix(&[acc, k.uid, v.uid]); }
        acc = mix(&[acc, c.contains(&probe) as u64]);
    }
    mark("peek_lru/peek_mru");
    if let Some((k, v)) = c.peek_lru() { acc = mix(&[acc, k.uid, v.uid]); }
    if let Some((k, v)) = c.peek_mru() { acc = mix(&[acc, k.uid, v.uid]); }
    mark("iter forward"); for (k, v) in c.iter() { acc = mix(&[acc, k.uid, v.uid]); }
    mark("iter backward"); for (k, v) in c.iter().rev() { acc = mix(&[acc, k.uid, v.uid]); }
    mark("iter interleaved"); { let mut it = c.iter(); let mut i = 0; loop { let x = if i % 2 == 0 { it.next() } else { it.next_back() }; match x { Some((k, _)) => acc = mix(&[acc, k.uid]), None => break } i += 1; } let _ = it.next(); let _ = it.next_back(); }
    mark("keys"); for k in c.keys() { acc = mix(&[acc, k.uid]); } for k in c.keys().rev() { acc = mix(&[acc, k.uid]); }
    mark("values"); for v in c.values() { acc = mix(&[acc, v.uid]); } for v in c.values().rev() { acc = mix(&[acc, v.uid]); }
    mark("debug"); acc = mix(&[acc, format!("{:?}", c).len() as u64]);
    mark("debug alternate / padded"); acc = mix(&[acc, format!("{:#?}", c).lines().count() as u64, format!("{:>8?}", c).len() as u64]);
    mark("clone"); { let d = c.clone(); acc = mix(&[acc, d.len() as u64, d.current_size() as u64]); mark("drop clone"); drop(d); }
    mark("verif_walk (hook)"); acc = mix(&[acc, c.verif_walk(c.len() + 4).forward.len() as u64]);
    acc
}

pub struct SrOut { pub stats: Stats, pub viols: Vec<Viol>, pub samples: Vec<String> }

fn build_state<S: HB>(rng: &mut Rng, base: usize) -> (Box<Cache<S>>, HistCfg, Vec<Op>) {
    let prof = profile(["mixed", "realloc", "map"][rng.usize_below(3)]);
    let mut cfg = make_cfg(rng, &prof, base);
    cfg.universe = if cfg!(miri) { cfg.universe.min(8) } else { rng.range(3, 64) as u32 };
    if cfg.max < (base + 60) * 4 && rng.chance(5, 6) { cfg.max = (base + 60) * rng.range(4, 60); }
    let n = if cfg!(miri) { rng.range(0, 16) } else { match rng.below(8) { 0 => 0, 1 => 1, _ => rng.range(2, 200) } };
    let mut g = Gen { rng: Rng::new(rng.next()), prof, base, orig_max: cfg.max, target_len: rng.range(0, 48).min(cfg.universe as usize) };
    let mut caches: Vec<Cache<S>> = vec![S::make(cfg.max, cfg.cap0, cfg.hk)];
    let mut cur = 0usize; let mut held = Held::default();
    let light = ObsOpts { universe: 0, owned_form: false, traversals: false, limit: 256 };
    let mut ops = Vec::new();
    let mut pre = observe(&caches[0], &light);
    for _ in 0..n {
        let op = g.next_op(&pre, &cfg, 1, 0);
        if matches!(op, Op::TryReserveFail { .. } | Op::Into { .. } | Op::DropCache { .. } | Op::Switch { .. } | Op::CloneCache) { continue; }
        let _ = apply(&mut caches, &mut cur, &op, &mut held, base); held.clear();
        ops.push(op);
        pre = observe(&caches[0], &light);
    }
    (Box::new(caches.pop().unwrap()), cfg, ops)
}

/// A big state built directly: thousands of entries, degenerate hashers included, tombstones, shuffled recency order.
fn build_deep(rng: &mut Rng, sizes: &[usize]) -> (Box<Cache<TH>>, HistCfg) {
    let n = sizes[rng.usize_below(sizes.len())];
    let hk = [0u8, 0, 1, 6, 2, 3][rng.usize_below(6)];
    let cfg = HistCfg { hk, cap0: if rng.chance(1, 2) { None } else { Some(n) }, max: usize::MAX >> 1, universe: (n + n / 4) as u32 + 40, events: 0, extreme: false };
    let mut c: Box<Cache<TH>> = Box::new(TH::make(cfg.max, cfg.cap0, hk));
    for id in 0..n as u32 { let _ = c.insert(TKey::new(id, (id % 3) as usize), TVal::new((id % 17) as usize)); }
    // tombstones and a recency order that differs from insertion order
    for id in (0..n as u32).step_by(11) { c.remove(&KeyId(id)); }
    for id in (0..n as u32).step_by(7) { c.touch(&KeyId(id)); }
    // end on fresh insertions: the lookups made afterwards through `&cache` (absent keys above all) are then longer than any
    // lookup made while building, so a "record the worst case seen so far" style of write cannot have been pre-empted
    for id in n as u32..(n + n / 4) as u32 { let _ = c.insert(TKey::new(id, 0), TVal::new(1)); }
    (c, cfg)
}

/// (a)+(b): all cache memory read-only while every `&self` operation runs, on 1 and then on `threads` threads.
#[cfg(all(not(miri), not(feature = "noarena")))]
pub fn run_arena(seed: u64, states: u64, threads: usize) -> SrOut {
    use crate::valloc::arena;
    let mut out = SrOut { stats: Stats::default(), viols: Vec::new(), samples: Vec::new() };
    let base = base_entry_size();
    println!("CASE sharedref warm-up");
    ledger_reset(); ledger_strict(false); ledger_reserve(1 << 22);
    arena::init(); arena::install_trap();
    let mut rng = Rng::new(seed);
    for st in 0..states {
        if arena::used() > (900 << 20) { break; }
        // every 25th state is a big one: thousands of entries, also under the degenerate hashers (long probe sequences)
        if st % 25 == 3 { arena_deep(&mut rng, base, &mut out, threads, st); continue; }
        if rng.chance(1, 8) { arena_state::<hashbrown::hash_map::DefaultHashBuilder>(&mut rng, base, &mut out, threads, st); } else { arena_state::<TH>(&mut rng, base, &mut out, threads, st); }
    }
    out
}

#[cfg(all(not(miri), not(feature = "noarena")))]
fn arena_deep(rng: &mut Rng, base: usize, out: &mut SrOut, threads: usize, st: u64) {
    use crate::valloc::arena;
    let from = arena::used();
    arena::enter();
    let (c, cfg) = build_deep(rng, &[300, 1100, 1500, 2500, 5000]);
    arena::leave();
    let _ = base;
    out.stats.count("c19_deep_states");
    out.stats.max("c19_deep_state_max_len", c.len() as u64);
    let hk = cfg.hk;
    if hk <= 1 || hk == 6 { out.stats.max("c19_deep_state_max_colliding_len", if hk == 1 { c.len() as u64 / 3 } else { c.len() as u64 }); }
    one_arena_state(&*c, &cfg, &[], out, from, threads, st);
    std::mem::forget(c);
    arena::reset_after_leak();
    ledger_reset();
}

#[cfg(all(not(miri), not(feature = "noarena")))]
fn arena_state<S: HB>(rng: &mut Rng, base: usize, out: &mut SrOut, threads: usize, st: u64) {
    use crate::valloc::arena;
    let from = arena::used();
    arena::enter();
    let (cache, cfg, ops) = build_state::<S>(rng, base);
    arena::leave();
    one_arena_state(&*cache, &cfg, &ops, out, from, threads, st);
    std::mem::forget(cache); // arena memory is never reused or written again
    arena::reset_after_leak();
    ledger_reset();
}

#[cfg(all(not(miri), not(feature = "noarena")))]
fn one_arena_state<S: HB>(cache: &Cache<S>, cfg: &HistCfg, ops: &[Op], out: &mut SrOut, from: usize, threads: usize, st: u64) {
    use crate::valloc::arena;
    let to = arena::used();
    let full = ObsOpts { universe: cfg.universe + 1, owned_form: true, traversals: true, limit: cache.len() + 8 };
    // before the protected phase only the hook looks at the cache: a shared-reference operation that writes "the first
    // time" or "when it beats the record so far" must not have been pre-empted by the observer's own lookups
    let pre = observe(cache, &ObsOpts { universe: 0, owned_form: false, traversals: false, limit: cache.len() + 8 });
    let h0 = arena::byte_hash(from, to);
    let desc = format!("state#{} [{}] len={} ops={}", st, cfg.to_text(), cache.len(), ops.len());
    println!("CASE sharedref {} :: {}", desc, ops.iter().map(|o| o.to_text()).collect::<Vec<_>>().join("; "));
    arena::protect();
    let d1 = shared_ops(cache, cfg.universe, Some(&desc));
    println!("CASE sharedref {} op=observe (hook + public traversals + lookups)", desc);
    let mid = observe(cache, &full);
    println!("CASE sharedref {} op=<{} threads at once>", desc, threads);
    let digests: Vec<u64> = std::thread::scope(|s| { let hs: Vec<_> = (0..threads).map(|_| s.spawn(|| shared_ops(cache, cfg.universe, None))).collect(); hs.into_iter().map(|h| h.join().unwrap()).collect() });
    arena::unprotect();
    let h1 = arena::byte_hash(from, to);
    let post = observe(cache, &full);
    let key = mix(&[cache.len().min(12) as u64, cfg.hk as u64, crate::oracle::has_tombstones(&pre) as u64, (pre.cap == pre.len) as u64, threads as u64]);
    out.stats.eval("C19", key);
    out.stats.events += 1;
    out.stats.add("c19_shared_ops_under_write_trap", (cfg.universe as u64 + 1) * 6 + 14);
    out.stats.add("c19_thread_runs_under_write_trap", threads as u64);
    out.stats.max("c19_max_len", cache.len() as u64);
    if cache.is_empty() { out.stats.count("c19_state_empty"); } if cache.len() == 1 { out.stats.count("c19_state_single"); }
    if crate::oracle::has_tombstones(&pre) { out.stats.count("c19_state_tombstoned"); }
    if cfg.hk == 0 { out.stats.count("c19_state_const_hasher"); }
    if h0 != h1 { out.viols.push(Viol { prop: "C19", sig: "bytes-changed".into(), msg: format!("{}: the bytes of the cache's memory changed during shared-reference operations", desc) }); }
    if mid != post || pre.fingerprint != mid.fingerprint || pre.fingerprint != post.fingerprint || pre.ents != post.ents || (pre.len, pre.cur, pre.max, pre.cap, pre.buckets, pre.seal, pre.table_at) != (post.len, post.cur, post.max, post.cap, post.buckets, post.seal, post.table_at) { out.viols.push(Viol { prop: "C19", sig: "state-changed".into(), msg: format!("{}: observable state or link structure changed during shared-reference operations", desc) }); }
    if !post.g1.is_empty() || !post.g2.is_empty() || !post.g3.is_empty() { out.viols.push(Viol { prop: "C07", sig: "g1".into(), msg: format!("{}: state is not coherent: {:?} {:?} {:?}", desc, post.g1, post.g2, post.g3) }); }
    // all threads read the same thing the single thread read (uids of clones differ, they are not part of the digest)
    if digests.iter().any(|d| *d != d1) { out.viols.push(Viol { prop: "C19", sig: "thread-digest".into(), msg: format!("{}: reader threads observed different contents than the single-threaded run", desc) }); }
    if out.samples.len() < 4 { out.samples.push(format!("{} | {}", desc, ops.iter().map(|o| o.to_text()).collect::<Vec<_>>().join("; "))); }
}

/// (c)/(d): reader threads over `&cache` without the arena: for Miri's and TSan's race detectors (and natively as a smoke test).
pub fn run_threads(seed: u64, states: u64, threads: usize) -> SrOut {
    let mut out = SrOut { stats: Stats::default(), viols: Vec::new(), samples: Vec::new() };
    let base = base_entry_size();
    ledger_reset(); ledger_strict(false);
    let mut rng = Rng::new(seed);
    for st in 0..states {
        let deep = !cfg!(miri) && st % 25 == 3;
        let (cache, cfg, ops) = if deep { let (c, cfg) = build_deep(&mut rng, &[300, 1100, 1500]); out.stats.count("c19_deep_states_race_detector"); (c, cfg, Vec::new()) } else { build_state::<TH>(&mut rng, base) };
        let universe = if cfg!(miri) { cfg.universe.min(6) } else { cfg.universe };
        let full = ObsOpts { universe: universe + 1, owned_form: false, traversals: true, limit: cache.len() + 8 };
        // hook only (see one_arena_state): the reader threads make the first lookups and traversals this cache ever sees through `&`
        let pre = observe(&*cache, &ObsOpts { universe: 0, owned_form: false, traversals: false, limit: cache.len() + 8 });
        let desc = format!("state#{} [{}] len={}", st, cfg.to_text(), cache.len());
        println!("CASE sharedref-threads {} :: {}", desc, ops.iter().map(|o| o.to_text()).collect::<Vec<_>>().join("; "));
        let c: &Cache<TH> = &cache;
        let digests: Vec<u64> = std::thread::scope(|s| { let hs: Vec<_> = (0..threads).map(|_| s.spawn(move || shared_ops(c, universe, None))).collect(); hs.into_iter().map(|h| h.join().unwrap()).collect() });
        let post = observe(&*cache, &full);
        out.stats.eval("C19", mix(&[cache.len().min(12) as u64, cfg.hk as u64, 77, threads as u64]));
        out.stats.eval("C18", mix(&[500, cache.len().min(12) as u64]));
        out.stats.events += 1;
        out.stats.add("c19_thread_runs_race_detector", threads as u64);
        if digests.windows(2).any(|w| w[0] != w[1]) { out.viols.push(Viol { prop: "C19", sig: "thread-digest".into(), msg: format!("{}: reader threads observed different contents", desc) }); }
        if pre.fingerprint != post.fingerprint || pre.ents != post.ents || (pre.len, pre.cur, pre.max, pre.cap, pre.buckets, pre.seal, pre.table_at) != (post.len, post.cur, post.max, post.cap, post.buckets, post.seal, post.table_at) || !post.g1.is_empty() || !post.g2.is_empty() || !post.g3.is_empty() {
            out.viols.push(Viol { prop: "C19", sig: "state-changed".into(), msg: format!("{}: state changed while only shared references existed", desc) }); }
        // C18 positive direction exercised: the cache is moved to another thread, used there mutably, and moved back
        let moved = std::thread::spawn(move || { let mut c = cache; let _ = c.insert(TKey::new(0, 0), TVal::new(1)); let _ = c.get(&KeyId(0)); c }).join().unwrap();
        out.stats.count("c18_moved_across_threads");
        let after = observe(&*moved, &full);
        if !after.g1.is_empty() { out.viols.push(Viol { prop: "C07", sig: "g1".into(), msg: format!("{}: not coherent after a round trip through another thread", desc) }); }
        drop(moved);
        if out.samples.len() < 3 { out.samples.push(desc); }
    }
    out
}
