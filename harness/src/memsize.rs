//! C08 / C09: size estimation. An independent statement of the composition laws (`Spec`),
//! random value construction with spare capacity at every level (`Build`), the bulk helpers
//! against element-wise sums for many iterator shapes, and the counting allocator as the
//! ground truth for owned buffers.

use lruverif::oracle::{Stats, Viol};
use lruverif::rng::{mix, Rng};
use lruverif::valloc;
use lru_mem::{HeapSize, MemSize, ValueSize};
use std::collections::{BinaryHeap, HashMap, HashSet};
use std::ffi::{CStr, CString, OsString};
use std::mem::size_of;
use std::num::Wrapping;
use std::ops::{Range, RangeFrom, RangeInclusive, RangeTo, RangeToInclusive};
use std::path::{Path, PathBuf};
use std::sync::{Mutex, RwLock};

pub use crate::memspec::{Declared, Picky, Spec, ZstHeap};

// ------------------------------------------------------------------------------ random construction

/// Builds a value by a random plan of with_capacity / push / reserve / shrink / truncate steps at every level.
pub trait Build: Sized { fn build(r: &mut Rng, d: u32) -> Self; }

fn count(r: &mut Rng, d: u32) -> usize { match r.below(6) { 0 => 0, 1 => 1, _ => r.usize_below(if d == 0 { 14 } else { 5 }) } }
fn text(r: &mut Rng, n: usize) -> String { (0..n).map(|_| (b'a' + r.below(26) as u8) as char).collect() }

macro_rules! leaf_build { ($($t:ty => $e:expr),*) => { $( impl Build for $t { fn build(r: &mut Rng, _d: u32) -> Self { let f: fn(&mut Rng) -> $t = $e; f(r) } } )* } }
leaf_build!(() => |_| (), u8 => |r| r.next() as u8, u16 => |r| r.next() as u16, u32 => |r| r.next() as u32, u64 => |r| r.next(), u128 => |r| r.next() as u128,
    usize => |r| r.next() as usize, i64 => |r| r.next() as i64, f64 => |r| r.next() as f64, bool => |r| r.chance(1, 2), char => |r| (b'a' + r.below(26) as u8) as char,
    std::time::Duration => |r| std::time::Duration::from_millis(r.below(1000)), std::cmp::Ordering => |r| if r.chance(1, 2) { std::cmp::Ordering::Less } else { std::cmp::Ordering::Greater },
    std::net::Ipv4Addr => |r| std::net::Ipv4Addr::from(r.next() as u32), std::num::NonZeroU32 => |r| std::num::NonZeroU32::new(1 + r.below(1000) as u32).unwrap(),
    std::ops::RangeFull => |_| (..));
impl Build for ZstHeap { fn build(_: &mut Rng, _: u32) -> Self { ZstHeap } }
impl Build for Picky { fn build(r: &mut Rng, _: u32) -> Self { Picky(match r.below(3) { 0 => 0, 1 => 16, _ => r.below(1000) as u32 }) } }
impl Build for Declared { fn build(r: &mut Rng, _: u32) -> Self { Declared(match r.below(3) { 0 => 0, 1 => 1, _ => r.below(100000) as u32 }) } }
impl<T> Build for std::marker::PhantomData<T> { fn build(_: &mut Rng, _: u32) -> Self { std::marker::PhantomData } }

impl Build for String {
    fn build(r: &mut Rng, _d: u32) -> String {
        let mut s = match r.below(3) { 0 => String::new(), 1 => String::with_capacity(r.usize_below(40)), _ => String::with_capacity(0) };
        for _ in 0..r.below(4) {
            match r.below(6) {
                0 => { let n = r.usize_below(12); s.push_str(&"abcdefghijkl"[..n]); }
                1 => s.reserve(r.usize_below(30)),
                2 => s.reserve_exact(r.usize_below(9)),
                3 => s.shrink_to_fit(),
                4 => { let l = r.usize_below(s.len() + 1); s.truncate(l); }
                _ => { let m = r.usize_below(20); s.shrink_to(m); }
            }
        }
        // other ways a String comes into being: each leaves its own length / capacity relation
        match r.below(14) {
            0 => s = s.clone(),
            1 => s.clear(),
            2 => { let t = std::mem::take(&mut s); s = if r.chance(1, 2) { t } else { String::new() }; }
            3 => s = String::from("a literal"),
            4 => s = s.into_boxed_str().into_string(),
            5 => { let mut v = s.into_bytes(); v.reserve(r.usize_below(10)); s = String::from_utf8(v).unwrap(); }
            6 => { let l = r.usize_below(s.len() + 1); let t = s.split_off(l); if r.chance(1, 2) { s = t; } }
            7 => { s.extend(["xy", "z"].iter().copied()); }
            8 => { let l = r.usize_below(s.len() + 1); s.drain(..l); }
            9 => s = s.chars().rev().collect(),
            10 => s = format!("{}-{}", s, r.below(1000)),
            _ => {}
        }
        s
    }
}
impl Build for OsString {
    fn build(r: &mut Rng, d: u32) -> OsString {
        let mut s = if r.chance(1, 2) { OsString::with_capacity(r.usize_below(40)) } else { OsString::new() };
        for _ in 0..r.below(3) { match r.below(4) { 0 => s.push(String::build(r, d)), 1 => s.reserve(r.usize_below(20)), 2 => s.shrink_to_fit(), _ => { let m = r.usize_below(10); s.shrink_to(m); } } }
        match r.below(10) {
            0 => s = OsString::from(String::build(r, d)),
            1 => s.clear(),
            2 => s = s.into_boxed_os_str().into_os_string(),
            3 => s = s.clone(),
            4 => s = PathBuf::build(r, d).into_os_string(),
            _ => {}
        }
        s
    }
}
impl Build for PathBuf {
    fn build(r: &mut Rng, _d: u32) -> PathBuf {
        let mut p = match r.below(3) { 0 => PathBuf::new(), 1 => PathBuf::with_capacity(r.usize_below(100)), _ => PathBuf::from("seed") };
        for _ in 0..r.below(4) { match r.below(5) { 0 | 1 => p.push(&"abcdefgh"[..1 + r.usize_below(7)]), 2 => p.reserve(r.usize_below(40)), 3 => p.shrink_to_fit(), _ => { p.pop(); } } }
        match r.below(12) {
            0 => { p.set_extension("txt"); }
            1 => { p.set_file_name("other-name.bin"); }
            2 => p = p.into_boxed_path().into_path_buf(),
            3 => p = p.clone(),
            4 => p = PathBuf::from(OsString::build(r, 1)),
            5 => p = p.join("sub").join("dir"),
            6 => p.push("/absolute"),
            _ => {}
        }
        p
    }
}
impl Build for CString {
    fn build(r: &mut Rng, _d: u32) -> CString {
        let n = r.usize_below(20);
        match r.below(6) {
            0 => { let mut v = Vec::with_capacity(n + r.usize_below(30)); v.extend_from_slice(text(r, n).as_bytes()); CString::new(v).unwrap() }
            1 => { let mut v = text(r, n).into_bytes(); v.push(0); CString::from_vec_with_nul(v).unwrap() }
            2 => CString::default(),
            3 => { let c = CString::new(text(r, n)).unwrap(); let mut b = c.into_bytes(); b.reserve(9); b.push(b'q'); CString::new(b).unwrap() }
            4 => CString::new(text(r, n)).unwrap().clone(),
            _ => CString::new(text(r, n)).unwrap(),
        }
    }
}
impl<T: Build> Build for Vec<T> {
    fn build(r: &mut Rng, d: u32) -> Vec<T> {
        let mut v: Vec<T> = match r.below(3) { 0 => Vec::new(), 1 => Vec::with_capacity(r.usize_below(20)), _ => Vec::with_capacity(0) };
        let n = count(r, d);
        for _ in 0..n { v.push(T::build(r, d + 1)); }
        for _ in 0..r.below(3) {
            match r.below(6) {
                0 => v.reserve(r.usize_below(16)),
                1 => v.reserve_exact(r.usize_below(5)),
                2 => v.shrink_to_fit(),
                3 => { let l = r.usize_below(v.len() + 1); v.truncate(l); }
                4 => { let m = r.usize_below(12); v.shrink_to(m); }
                _ => { if r.chance(1, 2) { v.push(T::build(r, d + 1)); } }
            }
        }
        match r.below(16) {
            0 => v.clear(),
            1 => { let l = r.usize_below(v.len() + 1); v.drain(..l); }
            2 => { let l = r.usize_below(v.len() + 1); let t = v.split_off(l); if r.chance(1, 2) { v = t; } }
            3 => v = v.into_iter().collect(),                       // may reuse the buffer in place
            4 => v = v.into_iter().rev().collect(),
            5 => v = v.into_boxed_slice().into_vec(),
            6 => { let mut k = 0usize; v.retain(|_| { k += 1; k % 2 == 0 }); }
            7 => { let mut w: Vec<T> = Vec::with_capacity(r.usize_below(9)); w.append(&mut v); if r.chance(1, 2) { v = w; } }
            8 => { let t = std::mem::take(&mut v); if r.chance(1, 2) { v = t; } }
            9 => { let extra: Vec<T> = (0..r.below(3)).map(|_| T::build(r, d + 1)).collect(); v.extend(extra); }
            10 => { if !v.is_empty() { let i = r.usize_below(v.len()); v.swap_remove(i); } }
            11 => { let x = T::build(r, d + 1); let i = r.usize_below(v.len() + 1); v.insert(i, x); }
            _ => {}
        }
        v
    }
}
impl<T: Build> Build for Box<T> { fn build(r: &mut Rng, d: u32) -> Box<T> { Box::new(T::build(r, d)) } }
impl<T: Build> Build for Box<[T]> { fn build(r: &mut Rng, d: u32) -> Box<[T]> { Vec::<T>::build(r, d).into_boxed_slice() } }
impl Build for Box<str> { fn build(r: &mut Rng, d: u32) -> Box<str> { String::build(r, d).into_boxed_str() } }
impl Build for Box<CStr> { fn build(r: &mut Rng, d: u32) -> Box<CStr> { CString::build(r, d).into_boxed_c_str() } }
impl Build for Box<Path> { fn build(r: &mut Rng, d: u32) -> Box<Path> { PathBuf::build(r, d).into_boxed_path() } }
impl<T: Build, const N: usize> Build for [T; N] { fn build(r: &mut Rng, d: u32) -> [T; N] { std::array::from_fn(|_| T::build(r, d + 1)) } }
impl<T: Build> Build for Option<T> { fn build(r: &mut Rng, d: u32) -> Option<T> { if r.chance(1, 3) { None } else { Some(T::build(r, d)) } } }
impl<T: Build, E: Build> Build for Result<T, E> { fn build(r: &mut Rng, d: u32) -> Result<T, E> { if r.chance(1, 2) { Ok(T::build(r, d)) } else { Err(E::build(r, d)) } } }
impl<T: Build> Build for Wrapping<T> { fn build(r: &mut Rng, d: u32) -> Self { Wrapping(T::build(r, d)) } }
impl<T: Build> Build for Range<T> { fn build(r: &mut Rng, d: u32) -> Self { T::build(r, d)..T::build(r, d) } }
impl<T: Build> Build for RangeFrom<T> { fn build(r: &mut Rng, d: u32) -> Self { T::build(r, d).. } }
impl<T: Build> Build for RangeTo<T> { fn build(r: &mut Rng, d: u32) -> Self { ..T::build(r, d) } }
impl<T: Build> Build for RangeToInclusive<T> { fn build(r: &mut Rng, d: u32) -> Self { ..=T::build(r, d) } }
impl<T: Build> Build for RangeInclusive<T> { fn build(r: &mut Rng, d: u32) -> Self { RangeInclusive::new(T::build(r, d), T::build(r, d)) } }
impl<T: Build> Build for Mutex<T> { fn build(r: &mut Rng, d: u32) -> Self { Mutex::new(T::build(r, d)) } }
impl<T: Build> Build for RwLock<T> { fn build(r: &mut Rng, d: u32) -> Self { RwLock::new(T::build(r, d)) } }
impl<K: Build + Eq + std::hash::Hash, V: Build> Build for HashMap<K, V> {
    fn build(r: &mut Rng, d: u32) -> Self {
        let mut m = if r.chance(1, 2) { HashMap::with_capacity(r.usize_below(30)) } else { HashMap::new() };
        for _ in 0..count(r, d) { m.insert(K::build(r, d + 1), V::build(r, d + 1)); }
        match r.below(4) { 0 => m.reserve(r.usize_below(40)), 1 => m.shrink_to_fit(), 2 => { let k: Vec<()> = Vec::new(); drop(k); } _ => {} }
        // removals leave tombstones, clear keeps the table, drain empties it, re-insertion after removals re-uses slots
        match r.below(10) {
            0 => { let mut k = 0usize; m.retain(|_, _| { k += 1; k % 2 == 0 }); }
            1 => m.clear(),
            2 => { let _ = m.drain().count(); }
            3 => { let mut k = 0usize; m.retain(|_, _| { k += 1; k % 3 != 0 }); for _ in 0..r.below(4) { m.insert(K::build(r, d + 1), V::build(r, d + 1)); } }
            4 => { m = m.into_iter().collect(); }
            5 => { m.shrink_to(r.usize_below(20)); }
            _ => {}
        }
        m
    }
}
impl<T: Build + Eq + std::hash::Hash> Build for HashSet<T> {
    fn build(r: &mut Rng, d: u32) -> Self {
        let mut m = if r.chance(1, 2) { HashSet::with_capacity(r.usize_below(30)) } else { HashSet::new() };
        for _ in 0..count(r, d) { m.insert(T::build(r, d + 1)); }
        match r.below(3) { 0 => m.reserve(r.usize_below(40)), 1 => m.shrink_to_fit(), _ => {} }
        match r.below(10) {
            0 => { let mut k = 0usize; m.retain(|_| { k += 1; k % 2 == 0 }); }
            1 => m.clear(),
            2 => { let _ = m.drain().count(); }
            3 => { let mut k = 0usize; m.retain(|_| { k += 1; k % 3 != 0 }); for _ in 0..r.below(4) { m.insert(T::build(r, d + 1)); } }
            4 => { m = m.into_iter().collect(); }
            _ => {}
        }
        m
    }
}
impl<T: Build + Ord> Build for BinaryHeap<T> {
    fn build(r: &mut Rng, d: u32) -> Self {
        let mut h = if r.chance(1, 2) { BinaryHeap::with_capacity(r.usize_below(20)) } else { BinaryHeap::new() };
        for _ in 0..count(r, d) { h.push(T::build(r, d + 1)); }
        match r.below(4) { 0 => h.reserve(r.usize_below(20)), 1 => h.shrink_to_fit(), 2 => { h.pop(); } _ => {} }
        match r.below(12) {
            0 => h = BinaryHeap::from(Vec::<T>::build(r, d)),
            1 => h = BinaryHeap::from(h.into_vec()),
            2 => h = BinaryHeap::from(h.into_sorted_vec()),
            3 => h.clear(),
            4 => { let _ = h.drain().count(); }
            5 => { let mut o = BinaryHeap::with_capacity(r.usize_below(9)); o.append(&mut h); if r.chance(1, 2) { h = o; } }
            6 => h = h.into_iter().collect(),
            7 => { h.shrink_to(r.usize_below(10)); }
            _ => {}
        }
        h
    }
}
/// borrowed data: allocated outside the attribution scope and leaked
impl Build for &'static String { fn build(r: &mut Rng, d: u32) -> Self { valloc::attr_pause(); let b: &'static String = Box::leak(Box::new(String::build(r, d))); valloc::attr_resume(); b } }
impl Build for &'static str { fn build(r: &mut Rng, d: u32) -> Self { valloc::attr_pause(); let b: &'static str = Box::leak(String::build(r, d).into_boxed_str()); valloc::attr_resume(); b } }
impl Build for &'static [u8] { fn build(r: &mut Rng, d: u32) -> Self { valloc::attr_pause(); let b: &'static [u8] = Box::leak(Vec::<u8>::build(r, d).into_boxed_slice()); valloc::attr_resume(); b } }
macro_rules! tuple_build { ($( ($($n:ident),+) ),+) => { $( impl<$($n: Build),+> Build for ($($n,)+) { fn build(r: &mut Rng, d: u32) -> Self { ($($n::build(r, d),)+) } } )+ } }
tuple_build!((A), (A, B), (A, B, C), (A, B, C, D), (A, B, C, D, E), (A, B, C, D, E, F), (A, B, C, D, E, F, G), (A, B, C, D, E, F, G, H), (A, B, C, D, E, F, G, H, I), (A, B, C, D, E, F, G, H, I, J));

// ------------------------------------------------------------------------------ the checks for one type

pub struct MsOut { pub stats: Stats, pub viols: Vec<Viol>, pub per_type: Vec<(String, u64)> }

fn viol(out: &mut MsOut, prop: &'static str, sig: &str, msg: String) {
    if out.viols.iter().filter(|v| v.prop == prop && v.sig == sig).count() < 4 { out.viols.push(Viol { prop, sig: sig.to_string(), msg }); }
    *out.stats.counters.entry(format!("violations_{}", prop)).or_insert(0) += 1;
}

fn shape_class(len: usize, cap_eq: bool) -> u64 { (match len { 0 => 0, 1 => 1, 2..=4 => 2, _ => 3 }) * 2 + cap_eq as u64 }

/// C08 laws + C09 allocator agreement for `rounds` random values of T, and the bulk helpers on random vectors of T.
pub fn check_type<T: Build + Spec + MemSize + 'static>(seed: u64, rounds: u64, out: &mut MsOut) {
    let name = T::name();
    let mut r = Rng::new(mix(&[seed, name.len() as u64, name.bytes().map(|b| b as u64).sum::<u64>()]));
    let mut n_eval = 0u64;
    for round in 0..rounds {
        // ---- one value, built inside an attribution scope
        valloc::attr_begin();
        let x = T::build(&mut r, 0);
        let live = valloc::attr_end();
        let heap = x.heap_size() as u128;
        let spec = x.spec_heap();
        let vs = x.value_size();
        n_eval += 1;
        out.stats.eval("C08", mix(&[name.len() as u64, name.bytes().map(|b| b as u64).sum::<u64>(), (heap > 0) as u64, (spec % 7) as u64 & 3]));
        if x.mem_size() as u128 != vs as u128 + heap { viol(out, "C08", "mem=value+heap", format!("{}: mem_size {} != value_size {} + heap_size {}", name, x.mem_size(), vs, heap)); }
        if vs != size_of::<T>() { viol(out, "C08", "value_size", format!("{}: value_size {} != size_of {}", name, vs, size_of::<T>())); }
        if heap != spec { viol(out, "C08", &format!("law:{}", name), format!("{}: heap_size() = {} but the composition law (own buffer by capacity + elements' heap sizes) gives {}", name, heap, spec)); }
        // ---- C09: the allocator's view (not for the synthetic leaves, whose declared sizes are not allocations)
        if name.contains("ZstHeap") || name.contains("Declared") || name.contains("Picky") { out.stats.count("c08_values_with_user_defined_leaves"); drop(x);
            if round % 2 == 0 { let xs: Vec<T> = (0..r.usize_below(9)).map(|_| T::build(&mut r, 1)).collect(); check_bulk::<T>(&name, &xs, &mut r, out); }
            continue; }
        out.stats.eval("C09", mix(&[name.len() as u64, name.bytes().map(|b| b as u64).sum::<u64>(), (live > 0) as u64, x.exact() as u64, (live as u64 % 5)]));
        if x.exact() {
            if heap as i128 != live as i128 { viol(out, "C09", &format!("alloc:{}", name), format!("{}: heap_size() = {} but the value holds {} bytes from the allocator", name, heap, live)); }
            out.stats.count("c09_exact_values");
        } else {
            if heap as i128 > live as i128 { viol(out, "C09", &format!("alloc-upper:{}", name), format!("{}: heap_size() = {} exceeds the {} bytes held from the allocator", name, heap, live)); }
            if heap < spec { viol(out, "C09", &format!("alloc-lower:{}", name), format!("{}: heap_size() = {} below capacity x entry size + elements = {}", name, heap, spec)); }
            out.stats.count("c09_bounded_values");
        }
        if live > 0 { out.stats.count("c09_values_holding_memory"); }
        drop(x);
        // ---- bulk helpers on a random vector of T, many iterator shapes
        if round % 2 == 0 {
            let xs: Vec<T> = (0..r.usize_below(9)).map(|_| T::build(&mut r, 1)).collect();
            check_bulk::<T>(&name, &xs, &mut r, out);
        }
    }
    out.per_type.push((name, n_eval));
}

/// A user-defined unsized type with its own `ValueSize` (the trait has no blanket impl for unsized types): the declared
/// value size is the packed size, not `size_of_val` (which includes trailing padding).
pub struct Rec<T: ?Sized> { pub tag: u32, pub payload: T }
impl ValueSize for Rec<[u8]> { fn value_size(&self) -> usize { 4 + self.payload.len() } }
impl HeapSize for Rec<[u8]> { fn heap_size(&self) -> usize { 0 } }

/// forwards the items of `inner`, reports the given size_hint whatever `inner` knows
struct WrongHint<I> { inner: I, lo: usize, hi: Option<usize> }
impl<I: Iterator> Iterator for WrongHint<I> { type Item = I::Item; fn next(&mut self) -> Option<I::Item> { self.inner.next() } fn size_hint(&self) -> (usize, Option<usize>) { (self.lo, self.hi) } }

fn check_bulk<T: MemSize + 'static>(name: &str, xs: &[T], r: &mut Rng, out: &mut MsOut) {
    let hs = |it: &mut dyn Iterator<Item = &T>| -> u128 { it.map(|x| x.heap_size() as u128).sum() };
    let vsum = |it: &mut dyn Iterator<Item = &T>| -> u128 { it.map(|x| x.value_size() as u128).sum() };
    let idx: Vec<usize> = if xs.is_empty() { vec![] } else { (0..r.usize_below(12)).map(|_| r.usize_below(xs.len())).collect() };
    let (a, b) = (r.usize_below(xs.len() + 1), r.usize_below(xs.len() + 2));
    let step = 1 + r.usize_below(3);
    let m = r.next();
    macro_rules! both { ($shape:expr, $mk:expr, exact) => {{
        let want_h = hs(&mut $mk); let want_v = vsum(&mut $mk);
        let got = [T::heap_size_sum_iter(|| $mk) as u128, T::heap_size_sum_exact_size_iter(|| $mk) as u128, T::value_size_sum_iter($mk) as u128, T::value_size_sum_exact_size_iter($mk) as u128];
        let want = [want_h, want_h, want_v, want_v];
        let names = ["heap_size_sum_iter", "heap_size_sum_exact_size_iter", "value_size_sum_iter", "value_size_sum_exact_size_iter"];
        for i in 0..4 { out.stats.eval("C08", mix(&[900 + i as u64, $shape, name.len() as u64, name.bytes().map(|b| b as u64).sum::<u64>()])); if got[i] != want[i] { viol(out, "C08", &format!("bulk:{}:{}", names[i], name), format!("{}::{} over shape #{} of {} elements = {}, element-wise sum = {}", name, names[i], $shape, xs.len(), got[i], want[i])); } }
        out.stats.count("c08_bulk_shapes_checked");
    }};
    ($shape:expr, $mk:expr, inexact) => {{
        let want_h = hs(&mut $mk); let want_v = vsum(&mut $mk);
        let got = [T::heap_size_sum_iter(|| $mk) as u128, T::value_size_sum_iter($mk) as u128];
        let want = [want_h, want_v];
        let names = ["heap_size_sum_iter", "value_size_sum_iter"];
        for i in 0..2 { out.stats.eval("C08", mix(&[950 + i as u64, $shape, name.len() as u64, name.bytes().map(|b| b as u64).sum::<u64>()])); if got[i] != want[i] { viol(out, "C08", &format!("bulk:{}:{}", names[i], name), format!("{}::{} over shape #{} of {} elements = {}, element-wise sum = {}", name, names[i], $shape, xs.len(), got[i], want[i])); } }
        out.stats.count("c08_bulk_shapes_checked");
    }}; }
    both!(0, xs.iter(), exact);
    both!(1, xs.iter().rev(), exact);
    both!(2, xs.iter().skip(a).take(b), exact);
    both!(3, xs.iter().step_by(step), exact);
    both!(4, idx.iter().map(|i| &xs[*i]), exact);
    both!(5, xs[..0].iter(), exact);
    both!(6, xs.iter().enumerate().filter(|(i, _)| (m >> (i % 64)) & 1 == 1).map(|(_, x)| x), inexact);
    both!(7, xs.iter().chain(xs.iter().rev()), inexact);
    both!(8, xs.iter().skip_while(|_| false).take_while(|_| true), inexact);
    // iterators whose size_hint is wrong (legal in safe code; a hint is advice, the items are what counts): claims the
    // length of the whole slice while yielding a subset, claims nothing at all, claims too little
    both!(9, WrongHint { inner: xs.iter().enumerate().filter(|(i, _)| (m >> (i % 64)) & 1 == 1).map(|(_, x)| x), lo: xs.len(), hi: Some(xs.len()) }, inexact);
    both!(10, WrongHint { inner: xs.iter(), lo: 0, hi: None }, inexact);
    both!(11, WrongHint { inner: xs.iter(), lo: xs.len() / 2, hi: Some(xs.len() / 2) }, inexact);
}

/// unsized element types through references: [T], str, Path, CStr
fn check_unsized(seed: u64, rounds: u64, out: &mut MsOut) {
    let mut r = Rng::new(mix(&[seed, 4242]));
    for _ in 0..rounds {
        let bs: Vec<Box<[String]>> = (0..r.usize_below(7)).map(|_| Build::build(&mut r, 1)).collect();
        let want_h: u128 = bs.iter().map(|b| (**b).heap_size() as u128).sum(); let want_v: u128 = bs.iter().map(|b| (**b).value_size() as u128).sum();
        let got_h = <[String]>::heap_size_sum_iter(|| bs.iter().map(|b| &**b)) as u128; let got_he = <[String]>::heap_size_sum_exact_size_iter(|| bs.iter().map(|b| &**b)) as u128;
        let got_v = <[String]>::value_size_sum_iter(bs.iter().map(|b| &**b)) as u128; let got_ve = <[String]>::value_size_sum_exact_size_iter(bs.iter().map(|b| &**b)) as u128;
        out.stats.eval("C08", mix(&[970, bs.len() as u64]));
        if got_h != want_h || got_he != want_h || got_v != want_v || got_ve != want_v { viol(out, "C08", "bulk-unsized:[String]", format!("[String] bulk helpers {:?} vs element-wise ({}, {})", (got_h, got_he, got_v, got_ve), want_h, want_v)); }
        for b in &bs { if (**b).spec_heap() != (**b).heap_size() as u128 || (**b).value_size() != std::mem::size_of_val(&**b) { viol(out, "C08", "law:[String]", format!("[String] of {} elements: heap {} value {}", b.len(), (**b).heap_size(), (**b).value_size())); } }
        let ss: Vec<Box<str>> = (0..r.usize_below(7)).map(|_| Build::build(&mut r, 1)).collect();
        let want_v: u128 = ss.iter().map(|b| b.len() as u128).sum();
        out.stats.eval("C08", mix(&[971, ss.len() as u64]));
        if <str>::value_size_sum_iter(ss.iter().map(|b| &**b)) as u128 != want_v || <str>::value_size_sum_exact_size_iter(ss.iter().map(|b| &**b)) as u128 != want_v || <str>::heap_size_sum_iter(|| ss.iter().map(|b| &**b)) != 0 || <str>::heap_size_sum_exact_size_iter(|| ss.iter().map(|b| &**b)) != 0 { viol(out, "C08", "bulk-unsized:str", "str bulk helpers disagree with element-wise sums".to_string()); }
        let ps: Vec<Box<Path>> = (0..r.usize_below(7)).map(|_| Build::build(&mut r, 1)).collect();
        let want_v: u128 = ps.iter().map(|b| std::mem::size_of_val(&**b) as u128).sum();
        out.stats.eval("C08", mix(&[972, ps.len() as u64]));
        if <Path>::value_size_sum_iter(ps.iter().map(|b| &**b)) as u128 != want_v || <Path>::heap_size_sum_iter(|| ps.iter().map(|b| &**b)) != 0 { viol(out, "C08", "bulk-unsized:Path", "Path bulk helpers disagree with element-wise sums".to_string()); }
        let cs: Vec<Box<CStr>> = (0..r.usize_below(7)).map(|_| Build::build(&mut r, 1)).collect();
        let want_v: u128 = cs.iter().map(|b| b.to_bytes_with_nul().len() as u128).sum();
        out.stats.eval("C08", mix(&[973, cs.len() as u64]));
        if <CStr>::value_size_sum_iter(cs.iter().map(|b| &**b)) as u128 != want_v || <CStr>::value_size_sum_exact_size_iter(cs.iter().map(|b| &**b)) as u128 != want_v { viol(out, "C08", "bulk-unsized:CStr", "CStr bulk helpers disagree with element-wise sums".to_string()); }
        // Box<user DST>: the box adds up the parts its pointee DECLARES (value_size + heap_size), alone and in bulk
        let recs: Vec<Box<Rec<[u8]>>> = (0..r.usize_below(6)).map(|i| -> Box<Rec<[u8]>> { match (i + r.usize_below(4)) % 4 { 0 => Box::new(Rec { tag: 1, payload: [0u8; 0] }), 1 => Box::new(Rec { tag: 2, payload: [7u8; 5] }), 2 => Box::new(Rec { tag: 3, payload: [1u8; 8] }), _ => Box::new(Rec { tag: 4, payload: [9u8; 13] }) } }).collect();
        let want: u128 = recs.iter().map(|b| ((**b).value_size() + (**b).heap_size()) as u128).sum();
        out.stats.eval("C08", mix(&[975, recs.len() as u64]));
        out.stats.count("c08_boxes_of_user_defined_unsized_types");
        let each: u128 = recs.iter().map(|b| b.heap_size() as u128).sum();
        let bulk = <Box<Rec<[u8]>>>::heap_size_sum_iter(|| recs.iter()) as u128;
        let bulk_e = <Box<Rec<[u8]>>>::heap_size_sum_exact_size_iter(|| recs.iter()) as u128;
        if each != want || bulk != want || bulk_e != want { viol(out, "C08", "law:Box<user DST>", format!("Box<Rec<[u8]>> x {}: heap_size() summed = {}, bulk helpers = {} / {}, value_size + heap_size of the pointees = {}", recs.len(), each, bulk, bulk_e, want)); }
        // OsStr only has a value size (it is what an OsString's buffer holds)
        let os: Vec<OsString> = (0..r.usize_below(7)).map(|_| Build::build(&mut r, 1)).collect();
        let want_v: u128 = os.iter().map(|b| b.as_os_str().len() as u128).sum();
        out.stats.eval("C08", mix(&[974, os.len() as u64]));
        if <std::ffi::OsStr>::value_size_sum_iter(os.iter().map(|b| b.as_os_str())) as u128 != want_v || <std::ffi::OsStr>::value_size_sum_exact_size_iter(os.iter().map(|b| b.as_os_str())) as u128 != want_v || os.iter().any(|b| b.as_os_str().value_size() != b.len()) { viol(out, "C08", "bulk-unsized:OsStr", "OsStr value sizes disagree with the byte lengths".to_string()); }
    }
}

/// A lock that another thread holds for a moment: the estimate must still add up the parts (it may wait for the lock).
fn check_locked(rounds: u64, out: &mut MsOut) {
    use std::sync::{mpsc, Arc};
    for i in 0..rounds {
        let cap = 64 + (i as usize % 7) * 16;
        let m = Arc::new(Mutex::new(String::with_capacity(cap)));
        let rw = Arc::new(RwLock::new(vec![0u64; 4 + i as usize % 5]));
        let (tx, rx) = mpsc::channel();
        let (m2, rw2) = (m.clone(), rw.clone());
        let holder = std::thread::spawn(move || { let g1 = m2.lock().unwrap(); let g2 = rw2.write().unwrap(); tx.send(()).unwrap(); std::thread::sleep(std::time::Duration::from_millis(25)); drop(g2); drop(g1); });
        rx.recv().unwrap();
        let (hm, hrw) = (m.heap_size() as u128, rw.heap_size() as u128);
        holder.join().unwrap();
        let (wm, wrw) = (m.spec_heap(), rw.spec_heap());
        out.stats.eval("C08", mix(&[980, i % 7])); out.stats.eval("C08", mix(&[981, i % 5]));
        out.stats.count("c08_measured_while_locked_elsewhere");
        if hm != wm { viol(out, "C08", "law:Mutex-locked-elsewhere", format!("Mutex<String> measured while another thread held the lock: heap_size() = {}, its content holds {}", hm, wm)); }
        // a poisoned lock still owns its contents: the estimate may refuse to answer (the library unwraps the lock result and
        // panics, which is outside what C08/C09 quantify over) but if it answers, the answer must be the contents' size
        if i % 3 == 0 {
            let pm = Arc::new(Mutex::new(String::with_capacity(cap)));
            let prw = Arc::new(RwLock::new(vec![0u64; 3 + i as usize % 4]));
            let (a, b) = (pm.clone(), prw.clone());
            let _ = std::thread::spawn(move || { let _g1 = a.lock().unwrap(); let _g2 = b.write().unwrap(); panic!("poisoning the locks on purpose"); }).join();
            let want_m = pm.lock().unwrap_or_else(|e| e.into_inner()).capacity() as u128;
            let want_rw = { let g = prw.read().unwrap_or_else(|e| e.into_inner()); (g.capacity() * 8) as u128 };
            out.stats.count("c08_poisoned_locks_measured");
            match std::panic::catch_unwind(std::panic::AssertUnwindSafe(|| pm.heap_size())) {
                Ok(h) => if h as u128 != want_m { viol(out, "C09", "alloc:Mutex-poisoned", format!("poisoned Mutex<String>: heap_size() = {}, the value still holds {} bytes", h, want_m)); viol(out, "C08", "law:Mutex-poisoned", format!("poisoned Mutex<String>: heap_size() = {}, its content holds {}", h, want_m)); },
                Err(_) => out.stats.count("c08_poisoned_lock_refused_to_answer"),
            }
            match std::panic::catch_unwind(std::panic::AssertUnwindSafe(|| prw.heap_size())) {
                Ok(h) => if h as u128 != want_rw { viol(out, "C09", "alloc:RwLock-poisoned", format!("poisoned RwLock<Vec<u64>>: heap_size() = {}, the value still holds {} bytes", h, want_rw)); viol(out, "C08", "law:RwLock-poisoned", format!("poisoned RwLock<Vec<u64>>: heap_size() = {}, its content holds {}", h, want_rw)); },
                Err(_) => out.stats.count("c08_poisoned_lock_refused_to_answer"),
            }
        }
        // a writer elsewhere that follows its own lock order over SEVERAL locks of one collection (holds a later element,
        // then wants an earlier one) while the collection is measured: the measurement must not hold one element's lock
        // while it waits for another's, or the two block each other for good. Decided by a very generous timeout
        // (60 s for something that takes 40 ms); only a mutant ever waits that long.
        if i % 4 == 1 {
            let locks: Arc<Vec<RwLock<String>>> = Arc::new((0..3).map(|j| RwLock::new(String::with_capacity(16 * (j + 1)))).collect());
            let want: u128 = (locks.capacity() * size_of::<RwLock<String>>()) as u128 + locks.iter().map(|l| l.read().unwrap().capacity() as u128).sum::<u128>();
            let (tx, rx) = mpsc::channel();
            let l2 = locks.clone();
            let writer = std::thread::spawn(move || { let w1 = l2[1].write().unwrap(); tx.send(()).unwrap(); std::thread::sleep(std::time::Duration::from_millis(40)); let w0 = l2[0].write().unwrap(); drop(w0); drop(w1); });
            rx.recv().unwrap();
            let (rtx, rrx) = mpsc::channel();
            let l3 = locks.clone();
            let measurer = std::thread::spawn(move || { let h = (*l3).heap_size(); let _ = rtx.send(h); });
            out.stats.count("c08_measured_against_a_writer_with_its_own_lock_order");
            out.stats.eval("C08", mix(&[982, i % 3]));
            match rrx.recv_timeout(std::time::Duration::from_secs(60)) {
                Ok(h) => { let _ = writer.join(); let _ = measurer.join(); if h as u128 != want { viol(out, "C08", "law:Vec<RwLock>-contended", format!("Vec<RwLock<String>> measured while a writer worked on it: heap_size() = {}, it holds {}", h, want)); } }
                Err(_) => { viol(out, "C08", "totality-deadlock", "Vec<RwLock<String>>::heap_size() did not return within 60 s while a writer that holds element 1 asked for element 0: the measurement keeps one element locked while it waits for another".to_string()); return; }
            }
        }
        if hrw != wrw { viol(out, "C08", "law:RwLock-locked-elsewhere", format!("RwLock<Vec<u64>> measured while another thread held the write lock: heap_size() = {}, its content holds {}", hrw, wrw)); }
    }
}

// ------------------------------------------------------------------------------ the type matrix

type T3 = (String, Vec<u8>, Box<str>);
type T10 = (u8, String, Vec<u16>, Box<str>, Option<String>, (), char, Vec<String>, u64, Box<[u8]>);
macro_rules! matrix { ($m:ident, $($a:tt)*) => { $m!($($a)*;
    u8, u64, (), char, u128, std::time::Duration, std::net::Ipv4Addr, std::num::NonZeroU32, std::marker::PhantomData<String>, std::ops::RangeFull,
    String, OsString, CString, PathBuf,
    Vec<u8>, Vec<u64>, Vec<()>, Vec<String>, Vec<Vec<u16>>, Vec<Vec<String>>, Vec<PathBuf>, Vec<OsString>, Vec<CString>,
    Box<u32>, Box<String>, Box<[u8]>, Box<[String]>, Box<str>, Box<CStr>, Box<Path>, Box<[u64; 3]>, Box<()>, Box<Vec<String>>, Box<(String, Vec<u8>)>, Box<Box<String>>,
    [String; 0], [String; 1], [String; 3], [u8; 3], [[String; 3]; 1], [[String; 0]; 3], [Vec<u8>; 3],
    Vec<[String; 0]>, Vec<[String; 3]>, Vec<[(Box<String>, u8); 3]>, [Vec<(String, Option<Box<[u16]>>)>; 0], [Vec<(String, Option<Box<[u16]>>)>; 1], Vec<[[String; 0]; 3]>, Vec<[[String; 3]; 0]>, Vec<[Box<str>; 1]>,
    (u8,), (String,), (String, u8), T3, (String, String, String, String), (u8, String, Vec<u8>, (), Box<str>), (String, u8, String, u8, String, u8),
    (Vec<u8>, u8, u16, u32, u64, String, ()), (String, u8, Box<[u8]>, char, String, u8, Vec<String>, ()), (u8, u8, u8, u8, String, u8, u8, u8, Vec<u8>), T10, Vec<T3>, Vec<T10>, Vec<(String,)>,
    Option<String>, Option<Box<Vec<u8>>>, Option<u8>, Vec<Option<String>>, Option<Option<String>>,
    Result<String, Vec<u8>>, Result<u8, Box<str>>, Vec<Result<String, u8>>,
    Wrapping<u8>, Wrapping<String>, Vec<Wrapping<u64>>, Vec<Wrapping<String>>,
    Range<u32>, Range<String>, RangeFrom<String>, RangeTo<String>, RangeInclusive<String>, RangeToInclusive<String>, Vec<Range<u32>>, Vec<RangeInclusive<String>>,
    Mutex<String>, RwLock<Vec<String>>, Mutex<Vec<Box<str>>>, Vec<Mutex<String>>, Box<Mutex<Vec<u8>>>, RwLock<u8>,
    BinaryHeap<u32>, BinaryHeap<String>, Vec<BinaryHeap<u8>>, BinaryHeap<Vec<u8>>, BinaryHeap<(u8, String)>,
    HashMap<u64, u8>, HashMap<String, bool>, HashMap<u32, u8>, HashMap<u128, u64>, HashMap<u16, u8>, HashMap<(u64, u8), u8>, HashSet<(u64, u8)>, HashMap<u8, u64>, HashMap<u64, (u8, u8, u8)>,
    HashMap<u32, String>, HashMap<String, Vec<u8>>, HashSet<String>, HashSet<u16>, Vec<HashMap<u8, String>>, HashMap<u8, u8>, Option<HashSet<String>>, (HashMap<u16, String>, String),
    &'static String, &'static str, Vec<&'static str>, (&'static [u8], String), Vec<&'static String>,
    ZstHeap, Declared, Picky, Vec<Picky>, Vec<[Picky; 3]>, [[Picky; 2]; 2], Box<[[Picky; 3]]>, BinaryHeap<[u8; 3]>, Vec<ZstHeap>, Vec<Declared>, Option<Vec<ZstHeap>>, Box<Vec<ZstHeap>>, Vec<Vec<ZstHeap>>, [ZstHeap; 3], (ZstHeap, String), HashMap<u8, ZstHeap>, BinaryHeap<u8>, Box<[ZstHeap]>, Vec<(ZstHeap, u8)>, Vec<[ZstHeap; 3]>,
    Vec<Box<[String]>>, Vec<Box<Vec<String>>>, Vec<Box<str>>, Vec<Box<Path>>, Vec<Box<CStr>>, Box<[Box<[Vec<u8>]>]>, Option<(PathBuf, OsString, CString)>
); } }

/// Second matrix: every constructor applied to every inner type (closes the matrix under one more level of nesting,
/// e.g. arrays of boxes of sized types, tuples of arrays, boxed arrays of boxes).
macro_rules! cross { ($m:ident, [$($a:tt)*], $($i:ty),*) => { $m!($($a)*; $(
    Vec<$i>, Box<$i>, [$i; 0], [$i; 1], [$i; 3], ($i,), (u8, $i), ($i, String, $i), Option<$i>, Result<$i, u8>, Wrapping<$i>, Range<$i>, Mutex<$i>,
    Box<[$i]>, Vec<[$i; 3]>, [[$i; 3]; 1], [Box<$i>; 3], Box<[$i; 3]>, Vec<Box<$i>>, ([$i; 3], u8), Wrapping<[$i; 3]>, [Option<$i>; 3], Vec<($i, u8)>
),*); } }

macro_rules! run_types { ($seed:expr, $rounds:expr, $out:expr, $only:expr; $($t:ty),* $(,)?) => {{ let mut i = 0usize; $( { let _ = i; if $only.map(|(sh, n): (u64, u64)| (i as u64) % n == sh).unwrap_or(true) { check_type::<$t>($seed, $rounds, $out); } i += 1; } )* let _ = i; }} }

pub fn run_memsize(seed: u64, rounds: u64, shard: Option<(u64, u64)>) -> MsOut {
    let mut out = MsOut { stats: Stats::default(), viols: Vec::new(), per_type: Vec::new() };
    matrix!(run_types, seed, rounds, &mut out, shard);
    let rounds3 = (rounds / 3).max(20);
    cross!(run_types, [seed, rounds3, &mut out, shard], u8, String, Box<u32>, Vec<u8>, (String, u8), [String; 0], Box<str>, Option<Box<u16>>, [Box<u32>; 3], Box<[u16]>, ZstHeap, Declared, Picky);
    if shard.map(|(s, _)| s == 0).unwrap_or(true) { check_unsized(seed, rounds, &mut out); }
    if shard.map(|(s, n)| s == 1 % n).unwrap_or(true) { check_locked(12, &mut out); }
    out.stats.events = out.stats.evals.values().sum();
    out
}

