//! Instrumented key / value / hasher types and the thread-local monitor state
//! (callback counters, panic fuse, drop ledger).

use lru_mem::HeapSize;
use std::borrow::Borrow;
use std::cell::{Cell, RefCell};
use std::fmt;
use std::hash::{BuildHasher, Hash, Hasher};
use std::sync::atomic::{AtomicU64, Ordering};

// ---------------------------------------------------------------- callback classes

pub const C_HASH: usize = 0;
pub const C_EQ: usize = 1;
pub const C_CLONE: usize = 2;
pub const C_KSIZE: usize = 3;
pub const C_VSIZE: usize = 4;
pub const C_CLOSURE: usize = 5;
pub const C_PRED: usize = 6;
pub const NCLASS: usize = 7;
pub const CLASS_NAMES: [&str; NCLASS] = ["hash", "eq", "clone", "key_size", "value_size", "mutate_closure", "retain_pred"];

pub const INJECTED: &str = "injected-panic";

thread_local! {
    static COUNTS: [Cell<u64>; NCLASS] = Default::default();
    // (class, remaining) ; remaining == 0 means disarmed
    static FUSE: Cell<(usize, u64)> = const { Cell::new((usize::MAX, 0)) };
    static LEDGER: RefCell<Ledger> = RefCell::new(Ledger::new());
}

static NEXT_UID: AtomicU64 = AtomicU64::new(1);

#[inline]
pub fn tick(class: usize) {
    COUNTS.with(|c| c[class].set(c[class].get() + 1));
    // cascade: once the armed panic has fired, the very next user callback of ANY class made while that panic is still
    // unwinding panics too (only code that runs user callbacks from a destructor / drop guard ever gets there; a panic in a
    // destructor during cleanup aborts the process, which the driver reports)
    if CASCADE.with(|c| c.get()) == 2 && std::thread::panicking() {
        CASCADE.with(|c| c.set(0));
        panic!("{} class={} (second panic, raised while the first one unwinds)", INJECTED, CLASS_NAMES[class]);
    }
    FUSE.with(|f| {
        let (c, n) = f.get();
        if c == class && n > 0 {
            f.set((c, n - 1));
            if n == 1 {
                CASCADE.with(|k| if k.get() == 1 { k.set(2) });
                panic!("{} class={}", INJECTED, CLASS_NAMES[class]);
            }
        }
    });
}
thread_local! { static CASCADE: std::cell::Cell<u8> = std::cell::Cell::new(0); }
/// 1 = armed (becomes 2 when the fuse fires), 0 = off
pub fn set_cascade(on: bool) { CASCADE.with(|c| c.set(on as u8)); }

pub fn counts() -> [u64; NCLASS] {
    COUNTS.with(|c| {
        let mut out = [0u64; NCLASS];
        for i in 0..NCLASS { out[i] = c[i].get(); }
        out
    })
}

pub fn delta(a: &[u64; NCLASS], b: &[u64; NCLASS]) -> [u64; NCLASS] {
    let mut out = [0u64; NCLASS];
    for i in 0..NCLASS { out[i] = b[i] - a[i]; }
    out
}

/// Arm the fuse: the n-th (1-based) callback of `class` from now on panics.
pub fn arm(class: usize, n: u64) { FUSE.with(|f| f.set((class, n))); }
pub fn disarm() { FUSE.with(|f| f.set((usize::MAX, 0))); CASCADE.with(|c| c.set(0)); }
pub fn fuse_pending() -> bool { FUSE.with(|f| f.get().1 > 0) }

// ---------------------------------------------------------------- drop ledger

pub struct Ledger {
    base: u64,
    /// state per uid-base: 0 = never created here, 1 = live, 2 = dropped once, 3+ = dropped more than once
    state: Vec<u8>,
    live: u64,
    pub strict: bool,
    pub errors: Vec<String>,
    window: Option<Vec<u64>>,
    pub created_total: u64,
    pub dropped_total: u64,
}

impl Ledger {
    fn new() -> Ledger {
        Ledger { base: 0, state: Vec::new(), live: 0, strict: false, errors: Vec::new(), window: None, created_total: 0, dropped_total: 0 }
    }
}

fn new_uid() -> u64 {
    let uid = NEXT_UID.fetch_add(1, Ordering::Relaxed);
    crate::valloc::own(|| LEDGER.with(|l| {
        let mut l = l.borrow_mut();
        if l.state.is_empty() { l.base = uid; }
        let idx = (uid - l.base) as usize;
        if idx >= l.state.len() { l.state.resize(idx + 1, 0); }
        l.state[idx] = 1;
        l.live += 1;
        l.created_total += 1;
    }));
    uid
}

/// Formatting reads the object: doing so after it was dropped is a read of moved-out / freed memory.
fn note_format(uid: u64) {
    let _ = crate::valloc::own(|| LEDGER.try_with(|l| {
        let mut l = match l.try_borrow_mut() { Ok(l) => l, Err(_) => return };
        let known = uid >= l.base && ((uid - l.base) as usize) < l.state.len();
        if known && l.state[(uid - l.base) as usize] >= 2 { let m = format!("object uid {} was formatted (Debug) after it had been dropped", uid); l.errors.push(m); }
    }));
}

/// Records the drop; returns false if this uid had already been dropped (a double drop).
fn on_drop(uid: u64) -> bool {
    // never panics
    let mut first = true;
    let _ = crate::valloc::own(|| LEDGER.try_with(|l| {
        let mut l = match l.try_borrow_mut() { Ok(l) => l, Err(_) => return };
        l.dropped_total += 1;
        if let Some(w) = l.window.as_mut() { w.push(uid); }
        let known = uid >= l.base && ((uid - l.base) as usize) < l.state.len() && l.state[(uid - l.base) as usize] != 0;
        if !known {
            if l.strict { let m = format!("drop of unknown uid {}", uid); l.errors.push(m); }
            return;
        }
        let idx = (uid - l.base) as usize;
        match l.state[idx] {
            1 => { l.state[idx] = 2; l.live -= 1; }
            n => { l.state[idx] = n.saturating_add(1); let m = format!("double drop of uid {} (drop #{})", uid, n); l.errors.push(m); first = false; }
        }
    }));
    first
}

/// Natively a detected double drop must not also become a glibc abort (the ledger has the
/// witness and the shard goes on); under Miri and the sanitizers the real double free is
/// performed so that the tool sees it as well.
#[inline]
fn release(live: &mut std::mem::ManuallyDrop<Box<u64>>, first: bool) {
    if first || cfg!(miri) || cfg!(feature = "noarena") { unsafe { std::mem::ManuallyDrop::drop(live) } }
}

pub fn ledger_strict(on: bool) { LEDGER.with(|l| l.borrow_mut().strict = on); }
pub fn ledger_reserve(n: usize) { LEDGER.with(|l| l.borrow_mut().state.reserve(n)); }
pub fn ledger_live() -> u64 { LEDGER.with(|l| l.borrow().live) }
pub fn ledger_totals() -> (u64, u64) { LEDGER.with(|l| { let l = l.borrow(); (l.created_total, l.dropped_total) }) }
/// 1 live, 2 dropped once, >2 double-dropped, 0 unknown
pub fn ledger_state(uid: u64) -> u8 {
    LEDGER.with(|l| { let l = l.borrow(); if uid < l.base { return 0; } *l.state.get((uid - l.base) as usize).unwrap_or(&0) })
}
pub fn ledger_is_live(uid: u64) -> bool { ledger_state(uid) == 1 }
pub fn ledger_take_errors() -> Vec<String> { LEDGER.with(|l| std::mem::take(&mut l.borrow_mut().errors)) }
pub fn ledger_has_errors() -> bool { LEDGER.with(|l| !l.borrow().errors.is_empty()) }
/// Forget everything (call only when no instrumented object is alive, or when the
/// remaining ones were leaked on purpose).
pub fn ledger_reset() {
    LEDGER.with(|l| { let mut l = l.borrow_mut(); l.state.clear(); l.live = 0; l.errors.clear(); l.window = None; });
    NEXT_SEED.with(|s| s.set(0));
}
/// uids currently live (slow; for leak reports)
pub fn ledger_live_uids(max: usize) -> Vec<u64> {
    LEDGER.with(|l| { let l = l.borrow(); l.state.iter().enumerate().filter(|(_, s)| **s == 1).map(|(i, _)| l.base + i as u64).take(max).collect() })
}
pub fn window_begin() { LEDGER.with(|l| l.borrow_mut().window = Some(Vec::new())); }
pub fn window_suspend() -> Option<Vec<u64>> { LEDGER.with(|l| l.borrow_mut().window.take()) }
pub fn window_restore(w: Option<Vec<u64>>) { LEDGER.with(|l| l.borrow_mut().window = w); }
pub fn window_end() -> Vec<u64> { LEDGER.with(|l| l.borrow_mut().window.take().unwrap_or_default()) }

// ---------------------------------------------------------------- key

pub struct TKey {
    pub id: u32,
    pub uid: u64,
    pub heap: usize,
    live: std::mem::ManuallyDrop<Box<u64>>,
}

impl TKey {
    pub fn new(id: u32, heap: usize) -> TKey {
        let uid = new_uid();
        TKey { id, uid, heap, live: std::mem::ManuallyDrop::new(crate::valloc::own(|| Box::new(uid))) }
    }
    /// reads through the owned allocation (a real memory access for the sanitizers)
    pub fn check_live(&self) -> bool { **self.live == self.uid }
}

impl Drop for TKey { fn drop(&mut self) { let first = on_drop(self.uid); release(&mut self.live, first); } }

impl Clone for TKey {
    fn clone(&self) -> TKey { tick(C_CLONE); TKey::new(self.id, self.heap) }
}

impl Hash for TKey {
    fn hash<H: Hasher>(&self, s: &mut H) { tick(C_HASH); s.write_u32(self.id) }
}

impl PartialEq for TKey {
    fn eq(&self, o: &TKey) -> bool { tick(C_EQ); self.id == o.id }
}
impl Eq for TKey {}

impl HeapSize for TKey {
    fn heap_size(&self) -> usize { tick(C_KSIZE); self.heap }
}

impl fmt::Debug for TKey {
    fn fmt(&self, f: &mut fmt::Formatter<'_>) -> fmt::Result { note_format(self.uid); let _ = self.check_live(); write!(f, "K{}u{}", self.id, self.uid) }
}

/// Borrowed form of a key: same hash and equality as TKey.
#[repr(transparent)]
pub struct KeyId(pub u32);

impl PartialEq for KeyId {
    fn eq(&self, o: &KeyId) -> bool { tick(C_EQ); self.0 == o.0 }
}
impl Eq for KeyId {}
impl Hash for KeyId {
    fn hash<H: Hasher>(&self, s: &mut H) { tick(C_HASH); s.write_u32(self.0) }
}
impl Borrow<KeyId> for TKey {
    fn borrow(&self) -> &KeyId {
        // KeyId is repr(transparent) over u32
        unsafe { &*(&self.id as *const u32 as *const KeyId) }
    }
}

// ---------------------------------------------------------------- value

pub struct TVal {
    pub uid: u64,
    pub heap: usize,
    pub stamp: u64,
    live: std::mem::ManuallyDrop<Box<u64>>,
}

impl TVal {
    pub fn new(heap: usize) -> TVal {
        let uid = new_uid();
        TVal { uid, heap, stamp: 0, live: std::mem::ManuallyDrop::new(crate::valloc::own(|| Box::new(uid))) }
    }
    pub fn check_live(&self) -> bool { **self.live == self.uid }
}

impl Drop for TVal { fn drop(&mut self) { let first = on_drop(self.uid); release(&mut self.live, first); } }

impl Clone for TVal {
    fn clone(&self) -> TVal { tick(C_CLONE); let mut v = TVal::new(self.heap); v.stamp = self.stamp; v }
}

impl HeapSize for TVal {
    fn heap_size(&self) -> usize { tick(C_VSIZE); self.heap }
}

impl fmt::Debug for TVal {
    fn fmt(&self, f: &mut fmt::Formatter<'_>) -> fmt::Result { note_format(self.uid); let _ = self.check_live(); write!(f, "V{}", self.uid) }
}

// ---------------------------------------------------------------- hashers

/// Deterministic hasher family: 0 constant, 1 three buckets, 2 high bits only
/// (same probe start, distinct tag), 3 multiplicative mix.
/// `TH(kind, seed)`: the seed is per-instance state (like std's RandomState); it enters the hash of the mixing kinds
/// (3, 5) only, so the structured kinds keep their collision structure. Clones share the seed.
#[derive(Clone, Debug)]
pub struct TH(pub u8, pub u64);

pub struct THH(u64, u8);

thread_local! { static NEXT_SEED: Cell<u64> = const { Cell::new(0) }; }
/// a fresh per-instance hasher seed (deterministic: the counter restarts with every ledger_reset)
pub fn next_hasher_seed() -> u64 { NEXT_SEED.with(|s| { let v = s.get(); s.set(v + 1); v.wrapping_mul(0x9E3779B97F4A7C15) }) }

impl BuildHasher for TH {
    type Hasher = THH;
    fn build_hasher(&self) -> THH { THH(if self.0 == 3 || self.0 == 5 || self.0 == 8 { self.1 } else { 0 }, self.0) }
    /// kind 8 specialises the one-shot method (as ahash does on nightly): a container has to use one of the two ways consistently
    fn hash_one<T: Hash>(&self, x: T) -> u64 {
        let mut h = self.build_hasher();
        x.hash(&mut h);
        let v = h.finish();
        if self.0 == 8 { v.rotate_left(29) ^ 0x5DEECE66D } else { v }
    }
}

impl Hasher for THH {
    fn finish(&self) -> u64 {
        match self.1 {
            0 => 0,
            1 => self.0 % 3,
            2 => self.0 << 57,
            5 => (self.0 ^ 0x5bd1e995).wrapping_mul(0x9E3779B97F4A7C15) & 0xFFFF,   // 16-bit hash (non-zero, below 2^32)
            6 => u64::MAX,                                                          // constant, all bits set
            7 => (self.0 & 1) << 63 | (self.0 >> 1) & 7,                            // two tag classes, eight probe starts
            _ => (self.0 ^ 0x5bd1e995).wrapping_mul(0x9E3779B97F4A7C15),
        }
    }
    fn write(&mut self, b: &[u8]) {
        for x in b { self.0 = self.0.wrapping_mul(31).wrapping_add(*x as u64); }
    }
    fn write_u32(&mut self, x: u32) { self.0 = self.0.wrapping_mul(31).wrapping_add(x as u64); }
}

pub const HASHER_NAMES: [&str; 9] = ["const", "mod3", "hibits", "mix", "default", "mix16", "const-ones", "coarse", "mix-with-specialised-hash_one"];
/// hasher kinds of the deterministic family (4 = hashbrown's default hasher, not a TH kind)
pub const TH_KINDS: [u8; 8] = [0, 1, 2, 3, 5, 6, 7, 8];
