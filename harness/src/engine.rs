//! History engine: runs generated (or replayed) operation sequences against real caches,
//! observes after every event and evaluates all transition oracles.

use crate::gen::*;
use crate::json::J;
use crate::obs::*;
use crate::ops::*;
use crate::oracle::*;
use crate::ops::set_current_hk;
use crate::rng::Rng;
use crate::types::*;
use hashbrown::hash_map::DefaultHashBuilder;
use std::collections::HashMap;

pub struct Failure {
    pub prop: &'static str,
    pub sig: String,
    pub msg: String,
    pub cfg: HistCfg,
    pub ops: Vec<String>,
    pub at: usize,
    /// (callback class, n): a panic was injected at the n-th callback of that class during ops[at]
    pub inject: Option<(usize, u64)>,
    /// not a replayable operation list: the witness is reproduced by running the same command again
    pub rerun: bool,
}

impl Failure {
    pub fn to_json(&self) -> J {
        let mut j = J::obj().set("property", J::s(self.prop)).set("signature", J::s(&self.sig)).set("message", J::s(&self.msg))
            .set("kind", J::s(if self.rerun { "rerun" } else if self.inject.is_some() { "inject" } else { "history" })).set("cfg", J::s(&self.cfg.to_text())).set("failing_event", J::us(self.at))
            .set("ops", J::strs(self.ops.iter().cloned()));
        if let Some((c, n)) = self.inject { j.put("inject_class", J::s(CLASS_NAMES[c])); j.put("inject_n", J::u(n)); }
        j
    }
}

pub struct RunOut {
    pub stats: Stats,
    pub failures: Vec<Failure>,
    /// number of violations per property (all, including those not kept as failures)
    pub viol_counts: HashMap<&'static str, u64>,
    pub gate_broken_histories: u64,
}

impl RunOut {
    pub fn new() -> RunOut { RunOut { stats: Stats::default(), failures: Vec::new(), viol_counts: HashMap::new(), gate_broken_histories: 0 } }
    pub fn record(&mut self, viols: &[Viol], cfg: &HistCfg, ops: &[Op], at: usize) { self.record_ex(viols, cfg, ops, at, None) }
    pub fn record_ex(&mut self, viols: &[Viol], cfg: &HistCfg, ops: &[Op], at: usize, inject: Option<(usize, u64)>) {
        for v in viols {
            *self.viol_counts.entry(v.prop).or_insert(0) += 1;
            let kept = self.failures.iter().filter(|f| f.prop == v.prop).count();
            let same_sig = self.failures.iter().filter(|f| f.prop == v.prop && f.sig == v.sig).count();
            if kept < 12 && same_sig < 3 {
                self.failures.push(Failure { prop: v.prop, sig: v.sig.clone(), msg: v.msg.clone(), cfg: cfg.clone(), ops: ops.iter().map(|o| o.to_text()).collect(), at, inject, rerun: false });
            }
        }
    }
}

pub fn base_entry_size() -> usize {
    let k = TKey::new(0, 0); let v = TVal::new(0);
    lru_mem::entry_size(&k, &v)
}

/// How the operations of a history are chosen.
pub enum Source<'a> {
    Generated(&'a mut Gen),
    Fixed(&'a [Op]),
    /// next operation computed from the current observation of the addressed cache (None ends the history)
    Dynamic(&'a mut dyn FnMut(&Obs, usize) -> Option<Op>),
}

pub struct HistOpts {
    pub obs_owned_form: bool,
    pub check_entry_size_fn: bool,
    /// sample the lookup sweep when the cache is larger than this
    pub big: usize,
    /// cheap observation (interpreters): structure gate every step, traversals and lookups sampled
    pub lean: bool,
    /// no transition oracles at all: structure gate + ledger only (the interpreter / sanitizer is the monitor)
    pub bare: bool,
}

impl Default for HistOpts { fn default() -> Self { HistOpts { obs_owned_form: true, check_entry_size_fn: true, big: 64, lean: cfg!(miri), bare: false } } }

pub fn run_history(cfg: &HistCfg, src: Source, out: &mut RunOut, opts: &HistOpts) {
    if cfg.hk == 4 { run_history_s::<DefaultHashBuilder>(cfg, src, out, opts) } else { run_history_s::<TH>(cfg, src, out, opts) }
}

fn run_history_s<S: HB>(cfg: &HistCfg, mut src: Source, out: &mut RunOut, opts: &HistOpts) {
    ledger_reset();
    ledger_strict(true);
    set_current_hk(cfg.hk);
    let base = base_entry_size();
    let mut caches: Vec<Cache<S>> = vec![S::make(cfg.max, cfg.cap0, cfg.hk)];
    let mut cur = 0usize;
    let mut held = Held::default();
    let mut oplog: Vec<Op> = Vec::new();
    let mut fresh_memo: HashMap<usize, usize> = HashMap::new();
    let fresh_cell = std::cell::RefCell::new(&mut fresh_memo);
    let hk = cfg.hk;
    let fresh_cap = move |n: usize| -> usize {
        let mut m = fresh_cell.borrow_mut();
        // "the smallest table size holding n entries" is asked of hashbrown itself (a table's capacity does not depend on the
        // element type), not of the cache's constructor, which is free to request more than the minimum
        let _ = hk;
        *m.entry(n).or_insert_with(|| hashbrown::raw::RawTable::<u64>::with_capacity(n).capacity())
    };
    let lean = opts.lean;
    let obs_opts = |len: usize, step: usize| ObsOpts {
        universe: if opts.bare { 0 } else if lean { if step % 8 == 0 { cfg.universe.min(12) } else { 0 } } else if len <= opts.big || step % 16 == 0 { cfg.universe } else { 0 },
        owned_form: !lean && opts.obs_owned_form && (len <= 24 || step % 8 == 0),
        traversals: if opts.bare { step % 16 == 0 } else if lean { step % 4 == 0 } else { len <= 4 * opts.big || step % 8 == 0 },
        limit: len + 8,
    };
    let mut pre_all: Vec<Obs> = vec![observe(&caches[0], &obs_opts(0, 0))];
    out.stats.histories += 1;
    // the constructor's promise: capacity() >= requested; with_capacity(n) takes n fresh insertions without change
    let cap_initial = pre_all[0].cap;
    if let Some(c0) = cfg.cap0 { if cap_initial < c0 { out.record(&[Viol { prop: "C13", sig: "ctor-capacity".into(), msg: format!("with_capacity({}) gave capacity {}", c0, cap_initial) }], cfg, &oplog, 0); } }
    let mut pristine = true; // only fresh insertions so far on cache 0
    let mut peak_len = 0usize;
    let mut explicit_cap = cap_initial;
    // the watermark of explicit requests is kept in buckets: capacity() itself dips with tombstones and recovers without any request
    let mut explicit_buckets = pre_all[0].buckets;
    let mut step = 0usize;
    let n_events = match &src { Source::Generated(_) => cfg.events, Source::Fixed(ops) => ops.len(), Source::Dynamic(_) => usize::MAX };
    let mut pending_leak: Option<String> = None; // C06: an unowned live object seen mid-history (reported if it survives to the end)
    let mut leaky = false; // an iterator was forgotten: leaks are permitted from here on (C17)
    let mut broken = false;
    while step < n_events && !caches.is_empty() {
        let op = match &mut src {
            Source::Generated(g) => g.next_op(&pre_all[cur], cfg, caches.len(), cur),
            Source::Fixed(ops) => ops[step].clone(),
            Source::Dynamic(f) => match f(&pre_all[cur], step) { Some(op) => op, None => break },
        };
        // skip structurally impossible ops in fixed sequences
        match &op { Op::Switch { idx } | Op::DropCache { idx } | Op::CloneFrom { src: idx } if *idx >= caches.len() => { step += 1; continue; } Op::CloneFrom { src } if *src == cur => { step += 1; continue; } Op::Into { .. } if caches.len() < 2 && step + 1 < n_events => { step += 1; continue; } _ => {} }
        oplog.push(op.clone());
        let addressed = cur;
        let removed = match &op { Op::Into { .. } => Some(cur), Op::DropCache { idx } if caches.len() > 1 => Some(*idx), _ => None };
        let t0 = counts();
        let o = apply(&mut caches, &mut cur, &op, &mut held, base);
        let ticks = delta(&t0, &counts());
        disarm();
        let len_now: Vec<usize> = caches.iter().map(|c| c.len()).collect();
        let post_all: Vec<Obs> = caches.iter().zip(len_now.iter()).map(|(c, l)| observe(c, &obs_opts(*l, step))).collect();
        let mut viols: Vec<Viol> = Vec::new();
        // --- map pre observations onto the surviving caches
        let mut pre_map: Vec<Option<Obs>> = pre_all.iter().cloned().map(Some).collect();
        let pre_addressed = pre_all[addressed].clone();
        if let Some(r) = removed { pre_map.remove(r); }
        let is_clone = matches!(op, Op::CloneCache) && o.panic.is_none() && post_all.len() == pre_all.len() + 1;
        let clone_src: Option<Obs> = match &op { Op::CloneFrom { src } => pre_all.get(*src).cloned(), _ => None };
        let addressed_after: Option<usize> = match &op {
            Op::Into { .. } => None,
            Op::DropCache { .. } | Op::Switch { .. } | Op::NewCache { .. } => None,
            _ => Some(addressed),
        };
        // --- the addressed cache's event
        {
            let ev = Event { pre: &pre_addressed, op: &op, out: &o, post: addressed_after.and_then(|i| post_all.get(i)), ticks, base, hk: cfg.hk,
                clone: if is_clone { post_all.last() } else { None }, clone_src: clone_src.as_ref(), fresh_cap: &fresh_cap };
            if opts.bare { out.stats.events += 1; out.stats.eval_only("C07"); out.stats.eval_only("C06"); for m in post_all.iter().flat_map(|p| p.g1.iter()) { viols.push(Viol { prop: "C07", sig: "g1".into(), msg: format!("after {}: {}", op.to_text(), m) }); } } else if matches!(op, Op::Into { .. }) || addressed_after.is_some() { check_event(&ev, &mut out.stats, &mut viols); }
        }
        // --- C14 independence: every other cache is exactly as it was
        if o.panic.is_none() && !opts.bare {
            for (j, p) in pre_map.iter().enumerate() {
                if Some(j) == addressed_after { continue; }
                if let (Some(p), Some(q)) = (p, post_all.get(j)) {
                    out.stats.eval("C14", crate::rng::mix(&[100, op.kind_index(), (p.len.min(9)) as u64, removed.is_some() as u64]));
                    if p.fingerprint != q.fingerprint || p.logical() != q.logical() || p.cur != q.cur || p.max != q.max || p.cap != q.cap {
                        viols.push(Viol { prop: "C14", sig: "dependence".into(), msg: format!("{} on cache #{} changed cache #{}: before {:?} cur {} cap {}, after {:?} cur {} cap {}", op.to_text(), addressed, j, p.logical(), p.cur, p.cap, q.logical(), q.cur, q.cap) });
                    }
                    for m in &q.g1 { viols.push(Viol { prop: "C07", sig: "g1".into(), msg: format!("cache #{} after {} on cache #{}: {}", j, op.to_text(), addressed, m) }); }
                }
            }
            if pre_all.len() > 1 { out.stats.count("c14_ops_with_sibling_caches"); }
        }
        // --- C06 ledger: double drops at once, conservation at every quiescent point
        let forget_event = matches!(&op, Op::Iterate { forget: true, .. } | Op::Into { forget: true, .. });
        if forget_event { leaky = true; }
        let in_caches: usize = post_all.iter().map(|p| p.ents.len() * 2).sum();
        let heldn = held.keys.len() + held.vals.len();
        if !leaky {
            out.stats.eval("C06", crate::rng::mix(&[op.kind_index(), o.drops.len().min(6) as u64, heldn.min(3) as u64, post_all.len() as u64, o.tag.len() as u64]));
            for e in ledger_take_errors() { viols.push(Viol { prop: "C06", sig: "double-drop".into(), msg: format!("during/after {}: {}", op.to_text(), e) }); }
            if o.panic.is_none() && post_all.iter().all(|p| p.g1.is_empty()) {
                let live = ledger_live() as usize;
                if live != in_caches + heldn {
                    let mut known: std::collections::BTreeSet<u64> = post_all.iter().flat_map(|p| p.ents.iter().flat_map(|e| [e.kuid, e.vuid])).collect();
                    for k in &held.keys { known.insert(k.uid); } for v in &held.vals { known.insert(v.uid); }
                    let stray: Vec<u64> = ledger_live_uids(100000).into_iter().filter(|u| !known.contains(u)).take(6).collect();
                    let dead: Vec<u64> = known.iter().filter(|u| !ledger_is_live(**u)).cloned().take(6).collect();
                    if !dead.is_empty() {
                        viols.push(Viol { prop: "C06", sig: "dropped-but-held".into(), msg: format!("after {}: {} objects alive, {} in the caches + {} handed back; owned but already dropped: {:?}", op.to_text(), live, in_caches, heldn, dead) });
                    } else if pending_leak.is_none() {
                        // An object that nobody owns any more but that has not been dropped yet. C06 speaks about the moment "the cache and
                        // everything obtained from it are gone", so this becomes a verdict only if it is still alive at the end of the history.
                        pending_leak = Some(format!("first seen after event #{} `{}`: alive but owned by nobody: {:?}", step, op.to_text(), stray));
                    }
                } else {
                    pending_leak = None;
                    for p in &post_all { for e in &p.ents { if !ledger_is_live(e.kuid) || !ledger_is_live(e.vuid) { viols.push(Viol { prop: "C06", sig: "dropped-but-held".into(), msg: format!("after {}: entry {} holds an object that was already dropped", op.to_text(), e.id) }); } } }
                }
            }
            held.clear();
            for e in ledger_take_errors() { viols.push(Viol { prop: "C06", sig: "double-drop".into(), msg: format!("dropping what {} handed back: {}", op.to_text(), e) }); }
        } else {
            // C17: after a forgotten iterator only leaks are allowed
            out.stats.eval("C17", crate::rng::mix(&[op.kind_index(), forget_event as u64, pre_addressed.len.min(9) as u64, o.yields.len().min(12) as u64, o.yields.iter().take(12).enumerate().map(|(i, y)| (y.none as u64) << i).sum::<u64>(), match &op { Op::Iterate { calls, .. } | Op::Into { calls, .. } => calls.iter().take(12).enumerate().map(|(i, c)| (*c as u64) << i).sum::<u64>(), _ => 0 }]));
            if forget_event { out.stats.countf(format_args!("c17_forgot_{}", op.kind())); }
            for e in ledger_take_errors() { viols.push(Viol { prop: "C17", sig: "double-drop".into(), msg: format!("during/after {}: {}", op.to_text(), e) }); }
            let handed: std::collections::BTreeSet<u64> = held.keys.iter().map(|k| k.uid).chain(held.vals.iter().map(|v| v.uid)).collect();
            for p in &post_all { for e in &p.ents {
                if handed.contains(&e.kuid) || handed.contains(&e.vuid) { viols.push(Viol { prop: "C17", sig: "moved-out-reachable".into(), msg: format!("after {}: the cache still lists entry {} whose key/value was handed out by the iterator", op.to_text(), e.id) }); break; }
                if !ledger_is_live(e.kuid) || !ledger_is_live(e.vuid) { viols.push(Viol { prop: "C17", sig: "moved-out-reachable".into(), msg: format!("after {}: the cache lists entry {} whose key/value has already been dropped", op.to_text(), e.id) }); break; }
            } }
            for p in &post_all { for m in p.g1.iter().chain(p.g2.iter()).chain(p.g3.iter()) { viols.push(Viol { prop: "C17", sig: "not-usable".into(), msg: format!("after {} (an iterator was forgotten earlier): {}", op.to_text(), m) }); } }
            if !forget_event && o.panic.is_none() { out.stats.count("c17_further_use_ops"); }
            held.clear();
            for e in ledger_take_errors() { viols.push(Viol { prop: "C17", sig: "double-drop".into(), msg: format!("dropping what {} handed back: {}", op.to_text(), e) }); }
        }
        // --- C13 history-level facets on cache 0: with_capacity promise and the growth bound
        if o.panic.is_none() && !post_all.is_empty() && addressed_after == Some(0) {
            let p0 = &post_all[0];
            let fresh_insert = matches!(&op, Op::Insert { id, .. } | Op::TryInsert { id, .. } if pre_addressed.find(*id).is_none()) && pre_addressed.len + 1 == p0.len;
            let neutral = matches!(op, Op::Peek { .. } | Op::PeekEntry { .. } | Op::Contains { .. } | Op::PeekLru | Op::PeekMru | Op::Scalars | Op::Debug | Op::Get { .. } | Op::GetEntry { .. } | Op::Touch { .. } | Op::GetLru | Op::CloneCache)
                || matches!(&op, Op::Iterate { kind, .. } if *kind != IT_DRAIN) || (matches!(op, Op::Insert { .. } | Op::TryInsert { .. }) && o.tag.starts_with("err_"));
            if !(fresh_insert || neutral) { pristine = false; }
            if pristine && cfg.cap0.is_some() && p0.len <= cfg.cap0.unwrap() {
                if fresh_insert { out.stats.count("c13_with_capacity_inserts"); out.stats.eval_only("C13"); }
                if p0.cap != cap_initial { viols.push(Viol { prop: "C13", sig: "with-capacity-changed".into(), msg: format!("cache created with_capacity({}) changed capacity from {} to {} at its {}-th fresh insertion", cfg.cap0.unwrap(), cap_initial, p0.cap, p0.len) }); }
            }
            peak_len = peak_len.max(p0.len).max(pre_addressed.len);
            if matches!(op, Op::Reserve { .. } | Op::TryReserve { .. } | Op::TryReserveFail { .. } | Op::CloneFrom { .. }) { explicit_cap = explicit_cap.max(p0.cap); explicit_buckets = explicit_buckets.max(p0.buckets); }
            let bound = (4 * peak_len).max(16);
            if !(p0.cap < bound || p0.cap <= explicit_cap || p0.buckets <= explicit_buckets) { viols.push(Viol { prop: "C13", sig: "growth-bound".into(), msg: format!("after {}: capacity {} with peak len {} (bound {}) and largest explicitly requested capacity {}", op.to_text(), p0.cap, peak_len, bound, explicit_cap) }); }
        } else if addressed_after != Some(0) || post_all.is_empty() {
            // cache 0 may have been replaced by a clone: restart the bound bookkeeping from what is there now
            if let Some(p0) = post_all.first() { if removed == Some(0) { pristine = false; peak_len = p0.len; explicit_cap = p0.cap; explicit_buckets = p0.buckets; } }
        }
        // --- entry_size() itself is linear in the declared sizes (cross-check of the formula the oracles use)
        if opts.check_entry_size_fn && step % 64 == 0 {
            if let Some(e) = post_all.first().and_then(|p| p.ents.last()) {
                let k = TKey::new(e.id, e.kheap); let vv = TVal::new(e.vheap);
                let real = lru_mem::entry_size(&k, &vv) as u128;
                // the oracles compute incoming entry sizes as declared key heap + declared value heap + entry_size(empty pair); if
                // entry_size() were ever defined differently this ASSUMPTION of the harness fails and the run is inconclusive, not violated
                if real != e.esize(base) { viols.push(Viol { prop: "ASSUME", sig: "entry-size-fn".into(), msg: format!("entry_size(key heap {}, value heap {}) = {}, expected {}", e.kheap, e.vheap, real, e.esize(base)) }); }
            }
            let _ = ledger_take_errors();
        }
        let gate_broken = post_all.iter().any(|p| !p.g1.is_empty());
        if !viols.is_empty() { out.record(&viols, cfg, &oplog, step); }
        if gate_broken { out.gate_broken_histories += 1; }
        // (a documented refusal - reserve with an overflowing argument - is an ordinary event: the history goes on)
        let stop_on_panic = o.panic.is_some() && !(cur < pre_all.len() && crate::oracle::documented_panic(&op, &pre_all[cur]));
        if !viols.is_empty() || stop_on_panic { broken = gate_broken || stop_on_panic; pre_all = post_all; break; }
        if out.stats.samples.get("hist").map(|v| v.len()).unwrap_or(0) < 3 && step == 12 { out.stats.sample("hist", format!("{} | {}", cfg.to_text(), oplog.iter().map(|o| o.to_text()).collect::<Vec<_>>().join("; "))); }
        pre_all = post_all;
        step += 1;
    }
    // ---- end of history: everything goes away, in a random but deterministic manner
    if broken {
        // the structure may be unsound: do not run destructors over it
        for c in caches.drain(..) { std::mem::forget(c); }
        held.clear();
        ledger_reset();
        return;
    }
    let mut viols: Vec<Viol> = Vec::new();
    let mut k = 0u64;
    if leaky {
        // use is over: drop every cache; a double drop would show here
        while let Some(c) = caches.pop() { drop(c); oplog.push(Op::DropCache { idx: 0 }); out.stats.count("c17_caches_dropped_after_forget"); }
        for e in ledger_take_errors() { viols.push(Viol { prop: "C17", sig: "double-drop".into(), msg: format!("dropping the cache after an iterator had been forgotten: {}", e) }); }
        if !viols.is_empty() { out.record(&viols, cfg, &oplog, oplog.len().saturating_sub(1)); }
        ledger_reset();
        return;
    }
    while let Some(c) = caches.pop() {
        let pre = pre_all.pop().unwrap();
        k += 1;
        let mode = (cfg.max as u64 ^ cfg.universe as u64 ^ k ^ oplog.len() as u64) % 5;
        let t0 = counts();
        let mut one = vec![c];
        let mut cur0 = 0usize;
        let op = match mode {
            0 | 1 => None,
            m => { let n = pre.ents.len(); let calls: Vec<bool> = (0..(n * (k as usize % 3)) / 2 + (k as usize % 2)).map(|i| (i + oplog.len()) % 3 == 0).collect(); Some(Op::Into { kind: 2 + m as u8, calls, forget: false, fin: [0u8, 0, 1, 2, 3, 4, 5, 6, 7, 8, 8][((k + oplog.len() as u64) % 11) as usize] }) }
        };
        match op {
            None => { window_begin(); drop(one.pop()); let drops = window_end(); oplog.push(Op::DropCache { idx: 0 });
                let mut want: Vec<u64> = pre.ents.iter().flat_map(|e| [e.kuid, e.vuid]).collect(); want.sort_unstable(); let mut got = drops; got.sort_unstable();
                if got != want { viols.push(Viol { prop: "C06", sig: "drop-cache".into(), msg: format!("dropping a cache with {} entries dropped {} objects", pre.ents.len(), got.len()) }); }
                out.stats.eval("C06", crate::rng::mix(&[200, pre.len.min(9) as u64])); }
            Some(op) => { oplog.push(op.clone()); let o = apply(&mut one, &mut cur0, &op, &mut held, base); let ticks = delta(&t0, &counts());
                let ev = Event { pre: &pre, op: &op, out: &o, post: None, ticks, base, hk: cfg.hk, clone: None, clone_src: None, fresh_cap: &fresh_cap };
                check_event(&ev, &mut out.stats, &mut viols);
                out.stats.eval("C06", crate::rng::mix(&[201, pre.len.min(9) as u64, o.yields.len().min(9) as u64, op.kind_index()]));
                held.clear(); }
        }
        for e in ledger_take_errors() { viols.push(Viol { prop: "C06", sig: "double-drop".into(), msg: format!("at the end of the history: {}", e) }); }
        let in_caches: usize = pre_all.iter().map(|p| p.ents.len() * 2).sum();
        if ledger_live() as usize != in_caches && (pre_all.is_empty() || pending_leak.is_none()) { viols.push(Viol { prop: "C06", sig: "leak".into(), msg: format!("after disposing of a cache: {} objects alive, {} in the remaining caches; e.g. {:?}{}", ledger_live(), in_caches, ledger_live_uids(100000).into_iter().take(6).collect::<Vec<_>>(), pending_leak.as_ref().map(|p| format!(" ({})", p)).unwrap_or_default()) }); break; }
    }
    if !viols.is_empty() { out.record(&viols, cfg, &oplog, oplog.len().saturating_sub(1)); for c in caches.drain(..) { std::mem::forget(c); } }
    ledger_reset();
}

/// Many generated histories under one profile.
pub fn run_profile(profile_name: &str, seed: u64, budget_events: u64, out: &mut RunOut, bare: bool) {
    let base = base_entry_size();
    let prof = profile(profile_name);
    let mut rng = Rng::new(seed);
    let opts = HistOpts { bare, ..HistOpts::default() };
    while out.stats.events < budget_events {
        let cfg = make_cfg(&mut rng, &prof, base);
        let target_len = rng.range(prof.fill.0, prof.fill.1).min(cfg.universe as usize);
        let mut g = Gen { rng: Rng::new(rng.next()), prof: prof.clone(), base, orig_max: cfg.max, target_len };
        run_history(&cfg, Source::Generated(&mut g), out, &opts);
    }
}
