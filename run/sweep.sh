#!/bin/bash
# usage: run/sweep.sh <tier> <seed>...   — runs every registered check at each seed, prints one line per run
cd "$(dirname "$0")/.."
tier=$1; shift
# in a `vp run --with-repo` snapshot build against the repository snapshot, not /repo (which may be patched meanwhile)
if [ -n "$VP_RUN_REPO" ] && [ "$(pwd)" != "/verif" ]; then sed -i "s#path = \"/repo\"#path = \"$VP_RUN_REPO\"#" harness/Cargo.toml harness_neg/Cargo.toml; echo "using repo snapshot $VP_RUN_REPO"; fi
for seed in "$@"; do
  for p in C01 C02 C03 C04 C05 C06 C07 C08 C09 C10 C11 C12 C13 C14 C15 C16 C17 C18 C19 C20; do
    t0=$(date +%s)
    out=$(VERIF_SEED=$seed python3 run/check.py $p --tier $tier 2>/dev/null)
    rc=$?
    echo "seed=$seed $p tier=$tier exit=$rc wall=$(( $(date +%s) - t0 ))s $(echo "$out" | grep -E '^(VIOLATION|INCONCLUSIVE)' | head -2 | tr '\n' ' ' | cut -c 1-300)"
  done
done
