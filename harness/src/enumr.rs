//! Enumerators: every next/next_back string for every iterator kind (C12), the same with
//! the iterator forgotten (C17), every retain subset (C15). Each case is a short history
//! run through the ordinary engine, so every transition oracle and the ledger apply.

use crate::engine::*;
use crate::gen::HistCfg;
use crate::obs::Obs;
use crate::ops::*;
use crate::rng::Rng;

/// Operations that build a cache of exactly `n` entries whose recency order differs from
/// insertion and bucket order, with a reallocation and (for n >= 4) a tombstone on the way.
pub fn build_ops(rng: &mut Rng, n: usize) -> Vec<Op> {
    let mut ids: Vec<u32> = (0..n as u32).collect();
    rng.shuffle(&mut ids);
    let mut ops = Vec::new();
    for (i, id) in ids.iter().enumerate() {
        ops.push(Op::Insert { id: *id, kh: rng.usize_below(5), vh: rng.usize_below(40) });
        if i == n / 2 { match rng.below(3) { 0 => ops.push(Op::Reserve { n: n + 3 }), 1 => ops.push(Op::ShrinkFit), _ => ops.push(Op::TryReserve { n: 2 * n + 1 }) } }
    }
    if n >= 4 {
        // a removal and re-insertion (tombstone, bucket order != list order)
        let victim = ids[rng.usize_below(n)];
        ops.push(Op::Remove { id: victim, owned: false });
        ops.push(Op::Insert { id: victim, kh: 1, vh: 7 });
    }
    for _ in 0..n.min(4) {
        let id = ids[rng.usize_below(n)];
        ops.push(match rng.below(3) { 0 => Op::Get { id, owned: false }, 1 => Op::Touch { id, owned: true }, _ => Op::GetLru });
    }
    if rng.chance(1, 2) { ops.push(Op::ShrinkFit); }
    ops
}

fn cfg_for(rng: &mut Rng, n: usize) -> HistCfg {
    let mut c = cfg_small(rng, n);
    // one case in 24 runs on a table of many megabytes (see make_cfg)
    if !cfg!(miri) && rng.below(24) == 0 { c.cap0 = Some(60_000 + rng.usize_below(100_000)); }
    c
}

fn cfg_small(rng: &mut Rng, n: usize) -> HistCfg {
    HistCfg { hk: [0u8, 1, 2, 3, 3, 4, 5, 6, 7][rng.usize_below(9)], cap0: [None, Some(0), Some(1), Some(n), Some(2 * n + 2)][rng.usize_below(5)], max: 1 << 40, universe: (n as u32 + 2).max(3), events: 0, extreme: false }
}

/// what a program may do with a cache after an iterator over it has gone away
fn follow_up(rng: &mut Rng, n: usize) -> Vec<Op> {
    let u = (n as u32 + 2).max(3);
    let mut ops = vec![Op::Scalars, Op::Insert { id: rng.below(u as u64) as u32, kh: 0, vh: 9 }, Op::Get { id: rng.below(u as u64) as u32, owned: false },
        Op::Insert { id: rng.below(u as u64) as u32, kh: 2, vh: 0 }, Op::Iterate { kind: IT_ITER, calls: vec![false; 3], forget: false, fin: 0 }];
    for _ in 0..5 {
        let id = rng.below(u as u64) as u32;
        ops.push(match rng.below(9) { 0 => Op::Remove { id, owned: false }, 1 => Op::Mutate { id, owned: false, vh: rng.usize_below(50) }, 2 => Op::Reserve { n: 9 }, 3 => Op::ShrinkFit,
            4 => Op::Retain { reject: vec![id] }, 5 => Op::PeekLru, 6 => Op::RemoveLru, 7 => Op::Insert { id, kh: 0, vh: 3 }, _ => Op::Contains { id, owned: true } });
    }
    ops.push(if rng.chance(1, 2) { Op::Clear } else { Op::Iterate { kind: IT_DRAIN, calls: vec![true], forget: false, fin: 0 } });
    ops.push(Op::Insert { id: 0, kh: 0, vh: 0 });
    ops
}

/// All call strings of length 0..=max_len over {next, next_back}, as (length, bits).
fn call_strings(max_len: usize) -> impl Iterator<Item = Vec<bool>> {
    (0..=max_len).flat_map(|l| (0u64..(1u64 << l)).map(move |bits| (0..l).map(|i| (bits >> i) & 1 == 1).collect::<Vec<bool>>()))
}

pub struct EnumParams { pub max_n: usize, pub extra_calls: usize, pub forget: bool, pub shard: u64, pub nshards: u64, pub seed: u64, pub bare: bool, pub markers: bool }

/// C12 (forget = false) / C17 (forget = true)
pub fn enum_iter(p: &EnumParams, out: &mut RunOut) -> u64 {
    let mut case = 0u64;
    let mut ran = 0u64;
    let opts = HistOpts { bare: p.bare, ..HistOpts::default() };
    for kind in 0u8..7 {
        for n in 0..=p.max_n {
            for calls in call_strings(n + p.extra_calls) {
                case += 1;
                if case % p.nshards != p.shard { continue; }
                let mut rng = Rng::new(crate::rng::mix(&[p.seed, case]));
                let cfg = cfg_for(&mut rng, n);
                let mut ops = build_ops(&mut rng, n);
                let consuming = kind >= IT_INTO_ITER;
                if consuming { ops.push(Op::CloneCache); } // keeps a sibling alive so that the engine can consume the addressed cache mid-history
                let fin = if p.forget { [0u8, 0, 3, 4, 5][(crate::rng::mix(&[case, 6]) % 5) as usize] } else { [0u8, 0, 0, 0, 1, 2, 3, 4, 5, 6, 7, 8, 8, 9, 10, 11, 12, 13, 14, 15][(crate::rng::mix(&[case, 5]) % 20) as usize] };
                if consuming { ops.push(Op::Into { kind, calls: calls.clone(), forget: p.forget, fin }); } else { ops.push(Op::Iterate { kind, calls: calls.clone(), forget: p.forget, fin }); }
                ops.extend(follow_up(&mut rng, n));
                if p.markers { println!("CASE iter kind={} n={} calls={} forget={} cfg=[{}]", IT_NAMES[kind as usize], n, calls.iter().map(|b| if *b { 'B' } else { 'F' }).collect::<String>(), p.forget, cfg.to_text()); }
                run_history(&cfg, Source::Fixed(&ops), out, &opts);
                ran += 1;
                if out.stats.samples.get(if p.forget { "C17" } else { "C12" }).map(|v| v.len()).unwrap_or(0) < 4 && ran % 97 == 1 {
                    out.stats.sample(if p.forget { "C17" } else { "C12" }, format!("{} | {}", cfg.to_text(), ops.iter().map(|o| o.to_text()).collect::<Vec<_>>().join("; ")));
                }
            }
        }
    }
    ran
}

/// Random long call strings on long lists (beyond the exhaustive bound).
pub fn random_iter(p: &EnumParams, cases: u64, max_len: usize, out: &mut RunOut) -> u64 {
    let opts = HistOpts { bare: p.bare, ..HistOpts::default() };
    let mut rng = Rng::new(crate::rng::mix(&[p.seed, p.shard, 77]));
    for _ in 0..cases {
        let n = rng.range(7, max_len);
        let kind = rng.below(7) as u8;
        let len = match rng.below(3) { 0 => n, 1 => n + rng.range(1, 3), _ => rng.usize_below(n + 3) };
        let style = rng.below(4);
        let calls: Vec<bool> = (0..len).map(|i| match style { 0 => false, 1 => true, 2 => i % 2 == 0, _ => rng.chance(1, 2) }).collect();
        let cfg = cfg_for(&mut rng, n);
        let mut ops = build_ops(&mut rng, n);
        let fin = if p.forget { 0 } else { rng.below(N_FIN) as u8 };
        if kind >= IT_INTO_ITER { ops.push(Op::CloneCache); ops.push(Op::Into { kind, calls, forget: p.forget, fin }); } else { ops.push(Op::Iterate { kind, calls, forget: p.forget, fin }); }
        ops.extend(follow_up(&mut rng, n));
        run_history(&cfg, Source::Fixed(&ops), out, &opts);
    }
    cases
}

/// C15: every subset of positions rejected, for every n <= max_n.
pub fn enum_retain(p: &EnumParams, out: &mut RunOut) -> u64 {
    let opts = HistOpts { bare: p.bare, ..HistOpts::default() };
    let mut case = 0u64;
    let mut ran = 0u64;
    for n in 0..=p.max_n {
        for mask in 0u64..(1u64 << n) {
            case += 1;
            if case % p.nshards != p.shard { continue; }
            let mut rng = Rng::new(crate::rng::mix(&[p.seed, case, 15]));
            let cfg = cfg_for(&mut rng, n);
            let build = build_ops(&mut rng, n);
            let tail = follow_up(&mut rng, n);
            let nb = build.len();
            let mut dynf = |pre: &Obs, step: usize| -> Option<Op> {
                if step < nb { return Some(build[step].clone()); }
                if step == nb {
                    // reject the entries at the masked positions of the *observed* recency order
                    let reject: Vec<u32> = pre.ents.iter().enumerate().filter(|(i, _)| (mask >> i) & 1 == 1).map(|(_, e)| e.id).collect();
                    return Some(Op::Retain { reject });
                }
                tail.get(step - nb - 1).cloned()
            };
            if p.markers { println!("CASE retain n={} mask={:#b} cfg=[{}]", n, mask, cfg.to_text()); }
            run_history(&cfg, Source::Dynamic(&mut dynf), out, &opts);
            ran += 1;
            if ran % 53 == 1 { out.stats.sample("C15", format!("{} | n={} reject-mask={:#b}", cfg.to_text(), n, mask)); }
        }
    }
    ran
}

/// Patterned / random predicates on long lists.
pub fn random_retain(p: &EnumParams, cases: u64, max_len: usize, out: &mut RunOut) {
    let opts = HistOpts { bare: p.bare, ..HistOpts::default() };
    let mut rng = Rng::new(crate::rng::mix(&[p.seed, p.shard, 1515]));
    for _ in 0..cases {
        let n = rng.range(9, max_len);
        let cfg = cfg_for(&mut rng, n);
        let build = build_ops(&mut rng, n);
        let tail = follow_up(&mut rng, n);
        let nb = build.len();
        let style = rng.below(6);
        let r2 = rng.next();
        let mut dynf = |pre: &Obs, step: usize| -> Option<Op> {
            if step < nb { return Some(build[step].clone()); }
            if step == nb {
                let m = pre.ents.len();
                let reject: Vec<u32> = pre.ents.iter().enumerate().filter(|(i, _)| match style { 0 => false, 1 => true, 2 => *i == 0 || *i + 1 == m, 3 => i % 2 == 0, 4 => i % 2 == 1, _ => (crate::rng::mix(&[r2, *i as u64]) & 1) == 1 }).map(|(_, e)| e.id).collect();
                return Some(Op::Retain { reject });
            }
            tail.get(step - nb - 1).cloned()
        };
        run_history(&cfg, Source::Dynamic(&mut dynf), out, &opts);
    }
}
