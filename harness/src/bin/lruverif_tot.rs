//! lruverif_tot: the totality cases of C08 only (cheap to build in every profile).

use lruverif::*;

#[path = "../memspec.rs"]
mod memspec;

#[global_allocator]
static GLOBAL: valloc::VAlloc = valloc::VAlloc;

fn main() {
    let args = Args::parse();
    match args.cmd.as_str() {
        "memsize_total" => {
            // one totality case per process: the verdict is the exit status (stack overflow aborts the process)
            let case = args.u64("case", 0); let n = args.u64("n", 1_000_000) as usize;
            let small = args.str("thread", "main") == "small";
            let run = move || match memspec::totality_case(case, n) { Some((what, got, want)) => println!("TOTAL-OK case={} n={} {} = {} (law: {})", case, n, what, got, want), None => println!("TOTAL-NONE case={}", case) };
            if small { std::thread::Builder::new().spawn(run).unwrap().join().unwrap(); } else { run(); }
        }
        _ => { eprintln!("usage: lruverif_tot memsize_total --case k --n N --thread main|small"); std::process::exit(2); }
    }
}
