#!/usr/bin/env python3
"""Self-validation of the monitors with seeded breaks (not registered in MANIFEST).

  python3 run/selftest.py [--only id,id] [--modes native,wrap,debug0] [--verify-suite] [--cross C01,C02,...]

Each mutant of mutants/mutants.py is applied to /repo's working tree (string substitution), the target property's
quick check is run, the tree is restored with `git checkout`. Results go to mutants/results.json.
"""
import json, os, subprocess, sys, time
VERIF = os.path.dirname(os.path.dirname(os.path.abspath(__file__)))
sys.path.insert(0, os.path.join(VERIF, "mutants"))
from mutants import M

def sh(cmd, **kw):
    return subprocess.run(cmd, shell=True, stdout=subprocess.PIPE, stderr=subprocess.STDOUT, text=True, **kw)

def main():
    args = sys.argv[1:]
    only = args[args.index("--only") + 1].split(",") if "--only" in args else None
    modes = args[args.index("--modes") + 1] if "--modes" in args else "native,wrap,debug0"
    cross = args[args.index("--cross") + 1].split(",") if "--cross" in args else []
    verify = "--verify-suite" in args
    assert sh("git -C /repo status --porcelain").stdout.strip() == "", "/repo has uncommitted changes"
    results = {}
    rp = os.path.join(VERIF, "mutants", "results.json")
    if os.path.exists(rp):
        results = json.load(open(rp))
    for mu in M:
        if only and mu["id"] not in only:
            continue
        path = os.path.join("/repo", mu["file"])
        src = open(path).read()
        rec = {"prop": mu["prop"], "note": mu["note"]}
        if src.count(mu["old"]) != 1:
            rec["status"] = "stale (old text occurs %d times)" % src.count(mu["old"])
            results[mu["id"]] = rec
            print(mu["id"], rec["status"])
            continue
        try:
            open(path, "w").write(src.replace(mu["old"], mu["new"]))
            b = sh("cd /repo && cargo build --offline --features verif-hooks 2>&1 | tail -5")
            if "error" in b.stdout:
                rec["status"] = "does not compile"
                rec["detail"] = b.stdout[-500:]
            else:
                if verify:
                    t = sh("cd /repo && cargo test --workspace --no-fail-fast --offline 2>&1 | grep -E '^test result|FAILED|failed'")
                    rec["suite_passes"] = ("FAILED" not in t.stdout and "failed;" in t.stdout and all(" 0 failed" in l for l in t.stdout.splitlines() if l.startswith("test result")))
                env = dict(os.environ, VERIF_ONLY_MODES=modes)
                t0 = time.time()
                for prop in ([mu["prop"]] if mu["prop"] != "NONE" else ["C07"]) + [c for c in cross if c != mu["prop"]]:
                    r = subprocess.run(["python3", "run/check.py", prop], cwd=VERIF, env=env, stdout=subprocess.PIPE, stderr=subprocess.PIPE, text=True)
                    viol = [l for l in r.stdout.splitlines() if l.startswith("VIOLATION")]
                    first = next((l for l in r.stdout.splitlines() if l.startswith("  ")), "")
                    key = "target" if prop == mu["prop"] else "cross"
                    if key == "target":
                        rec["detected"] = bool(viol)
                        rec["exit"] = r.returncode
                        rec["witness"] = first.strip()[:300]
                        rec["wall_s"] = round(time.time() - t0, 1)
                    else:
                        rec.setdefault("cross", {})[prop] = {"exit": r.returncode, "violations": len(viol), "witness": first.strip()[:160]}
                rec["status"] = "ok"
        finally:
            sh("git -C /repo checkout -- .")
        results[mu["id"]] = rec
        print(mu["id"], mu["prop"], rec.get("status"), "detected=%s" % rec.get("detected"), "suite_passes=%s" % rec.get("suite_passes"), rec.get("witness", "")[:140], flush=True)
        json.dump(results, open(rp, "w"), indent=1, sort_keys=True)
    missed = [k for k, v in results.items() if v.get("status") == "ok" and not v.get("detected")]
    print("missed:", missed)

if __name__ == "__main__":
    main()
