//! Scale and systematic workloads: constant-length churn (C13), hash counts at cache sizes
//! 4..16384 (C20), reallocation inserted at every position of base histories (C05/C07/C13/C14),
//! and a real-heap profile `LruCache<String, Vec<u8>>` (C01/C02).

use crate::engine::*;
use crate::gen::*;
use crate::obs::*;
use crate::ops::*;
use crate::oracle::Viol;
use crate::rng::{mix, Rng};
use crate::types::*;
use lru_mem::{entry_size, LruCache};

fn fail(out: &mut RunOut, prop: &'static str, sig: &str, msg: String, cfg: &HistCfg, note: String) {
    *out.viol_counts.entry(prop).or_insert(0) += 1;
    if out.failures.iter().filter(|f| f.prop == prop && f.sig == sig).count() < 3 {
        out.failures.push(Failure { prop, sig: sig.to_string(), msg, cfg: cfg.clone(), ops: vec![note], at: 0, inject: None, rerun: true });
    }
}

// ------------------------------------------------------------------------------ C13: churn at constant length

/// Insert/evict, remove/insert and replace churn at a constant length; the capacity must stay below
/// max(4 x peak len, 16) or within the table explicitly requested, however long it goes on.
pub fn run_churn(seed: u64, total_ops: u64, out: &mut RunOut) {
    let base = base_entry_size();
    let mut rng = Rng::new(seed);
    let mut done = 0u64;
    while done < total_ops {
        let len = match rng.below(6) { 0 => 1, 1 => 2, 2 => rng.range(3, 16), 3 => rng.range(17, 64), _ => rng.range(65, 300) };
        let hk = TH_KINDS[rng.usize_below(TH_KINDS.len())];
        // the limit holds exactly `len` entries of the base size: every further insertion evicts
        let cfg = HistCfg { hk, cap0: match rng.below(3) { 0 => None, 1 => Some(0), _ => Some(rng.usize_below(len + 2)) }, max: base * len, universe: (len * 3) as u32 + 3, events: 0, extreme: false };
        let mut c: Cache<TH> = TH::make(cfg.max, cfg.cap0, hk);
        let mut explicit_buckets = c.verif_table().0;
        let mut peak = 0usize;
        let mut next_id = 0u32;
        let span = (total_ops / 24).max(20000).min(total_ops - done);
        let mut cap_max = 0usize;
        for step in 0..span {
            // now and then the cache is emptied (or nearly) in one go and refilled by what follows: cycles must not ratchet the capacity up
            if rng.below(700) == 0 {
                match rng.below(5) {
                    0 => c.clear(),
                    1 => { let mut d = c.drain(); for _ in 0..rng.usize_below(4) { let _ = if rng.chance(1, 2) { d.next() } else { d.next_back() }; } }
                    2 => { c.set_max_size(base * rng.usize_below(3)); c.set_max_size(cfg.max); }
                    3 => { let m = rng.next(); c.retain(|k, _| (m >> (k.id % 64)) & 1 == 1); }
                    _ => { while c.remove_mru().is_some() {} }
                }
                out.stats.count("c13_churn_mass_departures");
            }
            match rng.below(10) {
                0..=5 => { let _ = c.insert(TKey::new(next_id, 0), TVal::new(0)); next_id = next_id.wrapping_add(1); }              // fresh key: evicts the LRU once full
                6 => { let id = next_id.wrapping_sub(1 + rng.below(len as u64) as u32); c.remove(&KeyId(id)); }                       // removal (tombstone)
                7 => { let id = next_id.wrapping_sub(1 + rng.below(len as u64) as u32); let _ = c.insert(TKey::new(id, 0), TVal::new(0)); } // replacement
                8 => { let id = next_id.wrapping_sub(1 + rng.below(len as u64) as u32); c.get(&KeyId(id)); }
                _ => { c.remove_lru(); }
            }
            peak = peak.max(c.len());
            let cap = c.capacity();
            cap_max = cap_max.max(cap);
            let bound = (4 * peak).max(16);
            out.stats.events += 1;
            if !(cap < bound) && c.verif_table().0 > explicit_buckets {
                fail(out, "C13", "growth-bound", format!("churn at length {}: capacity {} with peak len {} (bound {}) after {} operations", len, cap, peak, bound, step), &cfg, format!("churn len={} step={}", len, step));
                break;
            }
            if c.current_size() > c.max_size() { fail(out, "C01", "cur>max", format!("churn: current_size {} > max_size {}", c.current_size(), c.max_size()), &cfg, "churn".into()); break; }
            if step % 8192 == 0 {
                let o = observe(&c, &ObsOpts { universe: 0, owned_form: false, traversals: true, limit: c.len() + 8 });
                for m in &o.g1 { fail(out, "C07", "g1", format!("churn at length {} step {}: {}", len, step, m), &cfg, "churn".into()); }
                if rng.chance(1, 4) { c.reserve(1); explicit_buckets = explicit_buckets.max(c.verif_table().0); }
            }
        }
        done += span;
        out.stats.eval("C13", mix(&[777, len.min(40) as u64, hk as u64, cfg.cap0.is_some() as u64]));
        out.stats.add("c13_churn_ops", span);
        out.stats.count("c13_churn_runs");
        out.stats.max("c13_churn_max_capacity_over_peak_x100", (cap_max as u64 * 100) / peak.max(1) as u64);
        if out.stats.samples.get("C13").map(|v| v.len()).unwrap_or(0) < 3 { out.stats.sample("C13", format!("churn: length {} hasher {} initial capacity {:?}: {} operations, peak len {}, largest capacity {}", len, HASHER_NAMES[hk as usize], cfg.cap0, span, peak, cap_max)); }
        drop(c);
        ledger_reset();
    }
}

// ------------------------------------------------------------------------------ C20: hash counts at scale

pub fn run_hashscale(seed: u64, rounds: u64, out: &mut RunOut) {
    let base = base_entry_size();
    let mut rng = Rng::new(seed);
    ledger_strict(false);
    for &n in &[4usize, 64, 1024, 16384] {
        for hk in [2u8, 3] { // the constant / mod-3 hashers make big tables quadratic; they are covered at small sizes by the histories
            let cfg = HistCfg { hk, cap0: None, max: base * n, universe: (4 * n) as u32, events: 0, extreme: false };
            let mut c: Cache<TH> = TH::make(cfg.max, None, hk);
            for id in 0..n as u32 { let _ = c.insert(TKey::new(id, 0), TVal::new(0)); }
            let mut next = n as u32;
            for r in 0..rounds {
                let len0 = c.len();
                let t0 = c.verif_table();
                let h0 = counts()[C_HASH];
                let present = next.wrapping_sub(1 + rng.below(len0.max(1) as u64) as u32);
                let mut kind = rng.below(18);
                // mass ejections by a single insert / mutate (with survivors) are followed by a refill: keep them rare on big tables
                if kind >= 16 && n >= 1024 && r % 8 != 0 { kind = rng.below(16); }
                let room = c.capacity() > len0;
                let mut replaced = false;
                let (name, zero, may_rebuild): (&str, bool, bool) = match kind {
                    0 => { let _ = c.insert(TKey::new(next, 0), TVal::new(0)); next += 1; ("insert evicting 1", false, true) }
                    1 => { let k = 1 + rng.usize_below(5); let _ = c.insert(TKey::new(next, 0), TVal::new(base * k - base)); next += 1; ("insert evicting k", false, true) }
                    2 => { replaced = c.contains(&KeyId(present)); let h1 = counts()[C_HASH]; let _ = c.insert(TKey::new(present, 0), TVal::new(0)); let d = counts()[C_HASH] - h1; let dep = (len0 + !replaced as usize).saturating_sub(c.len()); let t1 = c.verif_table(); check_bound(out, &cfg, "insert replacing", d, dep, t1 != t0 && (!room || t1.0 > t0.0), len0, n); continue; }
                    3 => { c.get(&KeyId(present)); ("get", false, false) }
                    4 => { c.peek(&KeyId(present)); ("peek", false, false) }
                    5 => { c.contains(&TKey::new(present, 0)); ("contains", false, false) }
                    6 => { c.touch(&KeyId(present)); ("touch", false, false) }
                    7 => { c.remove(&KeyId(present)); ("remove", false, false) }
                    8 => { let _ = c.mutate(&KeyId(present), |v| { v.heap = 0; }); ("mutate", false, false) }
                    9 => { let k = rng.usize_below(4); let _ = c.mutate(&KeyId(present), |v| { v.heap = base * k; }); ("mutate growing", false, false) }
                    10 => { c.peek_lru(); c.peek_mru(); ("peek_lru/peek_mru", true, false) }
                    11 => { let mut s = 0u64; for (k, _) in c.iter() { s ^= k.uid; } for k in c.keys().rev().take(7) { s ^= k.uid; } std::hint::black_box(s); ("iter/keys", true, false) }
                    12 => { c.reserve(rng.usize_below(3 * n)); ("reserve", false, true) }
                    13 => { c.shrink_to_fit(); ("shrink_to_fit", false, true) }
                    16 | 17 => {
                        // k entries must go at once, 1 <= survivors: k around len/2, len-1, len-3, 1024.., random
                        let k = match rng.below(5) { 0 => len0 / 2, 1 => len0.saturating_sub(1), 2 => len0.saturating_sub(3), 3 => 1024.min(len0.saturating_sub(1)) + rng.usize_below(9), _ => rng.usize_below(len0.max(1)) }.min(len0.saturating_sub(1)).max(1);
                        let free = cfg.max - c.current_size();
                        if kind == 16 { let _ = c.insert(TKey::new(next, 0), TVal::new((base * k - base + free).saturating_sub(0))); next += 1; }
                        else { let lru_safe = c.peek_mru().map(|(k, _)| k.id).unwrap_or(present); let _ = c.mutate(&KeyId(lru_safe), |v| { v.heap = base * k + free; }); }
                        let d = counts()[C_HASH] - h0;
                        let t1 = c.verif_table();
                        let dep = (len0 + (kind == 16) as usize).saturating_sub(c.len());
                        let ok_rebuild = t1 != t0 && kind == 16 && (!room || t1.0 > t0.0);
                        out.stats.count("c20_scale_mass_ejections");
                        out.stats.max("c20_scale_mass_ejection_max_departures", dep as u64);
                        check_bound(out, &cfg, if kind == 16 { "insert mass-ejecting" } else { "mutate mass-ejecting" }, d, dep, ok_rebuild, len0, n);
                        // shrink the big entry again and refill
                        if kind == 17 { if let Some(mru) = c.peek_mru().map(|(k, _)| k.id) { let _ = c.mutate(&KeyId(mru), |v| { v.heap = 0; }); } } else { c.remove(&KeyId(next - 1)); }
                        while c.len() < n { let _ = c.insert(TKey::new(next, 0), TVal::new(0)); next += 1; }
                        continue;
                    }
                    14 => { let m = c.current_size().saturating_sub(base * rng.usize_below(4)); c.set_max_size(m); let d = counts()[C_HASH] - h0; let dep = len0 - c.len(); c.set_max_size(cfg.max); check_bound(out, &cfg, "set_max_size", d, dep, false, len0, n); continue; }
                    _ => { if r % 64 == 0 { let d = c.clone(); let dh = counts()[C_HASH] - h0; if dh != len0 as u64 { fail(out, "C20", "clone-hashes", format!("clone of {} entries computed {} key hashes", len0, dh), &cfg, "hashscale".into()); } out.stats.eval("C20", mix(&[999, n as u64])); drop(d); } continue; }
                };
                let _ = replaced;
                let d = counts()[C_HASH] - h0;
                let t1 = c.verif_table();
                let rebuilt = t1 != t0;
                let dep = (len0 + if name.starts_with("insert") { 1 } else { 0 }).saturating_sub(c.len());
                if zero { if d != 0 { fail(out, "C20", "hash-free", format!("{} on {} entries computed {} key hashes", name, len0, d), &cfg, "hashscale".into()); } out.stats.eval("C20", mix(&[kind, n as u64, 0])); continue; }
                // an insertion may rebuild only to grow: the table had no room left, or it ends up with more buckets
                let may_rebuild = may_rebuild && (!name.starts_with("insert") || !room || t1.0 > t0.0);
                check_bound(out, &cfg, name, d, dep, rebuilt && may_rebuild, len0, n);
            }
            // refill for the next hasher / keep the table bounded
            drop(c);
            ledger_reset();
        }
    }
}

/// One very large cache: a single call that makes more than a million entries leave must still hash each of them once
/// and nothing else (no rebuild by an operation that is not allowed to rebuild).
pub fn run_hashscale_giant(n: usize, out: &mut RunOut) {
    let base = base_entry_size();
    ledger_reset(); ledger_strict(false);
    let cfg = HistCfg { hk: 3, cap0: None, max: usize::MAX, universe: n as u32, events: 0, extreme: false };
    let mut c: Cache<TH> = TH::make(usize::MAX, None, 3);
    for id in 0..n as u32 { let _ = c.insert(TKey::new(id, 0), TVal::new(0)); }
    // explicit rebuilds of the giant table: every held entry is hashed once, none is lost, the list stays closed and
    // every key is found where traversal says it is (thresholds inside the rebuild are crossed at 2^21, 2^22, ... entries)
    for (name, which) in [("reserve giant", 0u8), ("shrink_to_fit giant", 1), ("try_reserve giant", 2)] {
        let (len0, h0, t0) = (c.len(), counts()[C_HASH], c.verif_table());
        { use std::io::Write; println!("CASE hashscale giant n={} op={}", n, name); let _ = std::io::stdout().flush(); }
        match which { 0 => c.reserve(n), 1 => c.shrink_to_fit(), _ => { let _ = c.try_reserve(2 * n + n / 2); } }
        let d = counts()[C_HASH] - h0;
        let rebuilt = c.verif_table() != t0;
        check_bound(out, &cfg, name, d, 0, rebuilt, len0, n);
        out.stats.eval("C07", mix(&[7070, which as u64, (n >> 20) as u64]));
        out.stats.eval("C04", mix(&[7040, which as u64, (n >> 20) as u64]));
        if rebuilt { out.stats.count("c20_giant_rebuilds"); out.stats.max("c20_giant_rebuild_max_len", len0 as u64); }
        if rebuilt && d > len0 as u64 + 2 { fail(out, "C20", "bound", format!("{} of a cache with {} entries computed {} key hashes (each held entry is hashed once)", name, len0, d), &cfg, "hashscale giant".into()); }
        let w = c.verif_walk(len0 + 8);
        if c.len() != len0 || w.forward.len() != len0 || w.forward_end != lru_mem::VerifWalkEnd::Closed || w.backward.len() != len0 || w.backward_end != lru_mem::VerifWalkEnd::Closed {
            fail(out, "C07", "g1", format!("after {} of a cache with {} entries: len() = {}, forward walk {} nodes ({:?}), backward walk {} nodes ({:?})", name, len0, c.len(), w.forward.len(), w.forward_end, w.backward.len(), w.backward_end), &cfg, "hashscale giant".into());
            std::mem::forget(c); ledger_reset(); return;
        }
        // lookups: a sample of all ids and every id around the powers of two
        let mut probe: Vec<u32> = (0..n as u32).step_by(997).collect();
        for sh in 16..31 { let p = 1u64 << sh; for dlt in 0..6u64 { for b in [p.wrapping_sub(dlt), p + dlt] { if (b as usize) < n { probe.push(b as u32); } } } }
        let mut missing = 0usize; let mut first_missing = None;
        for id in &probe { if c.peek(&KeyId(*id)).map(|v| v.check_live()) != Some(true) || !c.contains(&KeyId(*id)) { missing += 1; if first_missing.is_none() { first_missing = Some(*id); } } }
        if missing > 0 { fail(out, "C04", "g3", format!("after {} of a cache with {} entries, {} of {} probed keys that traversal still lists are not found by lookup (first: {:?})", name, len0, missing, probe.len(), first_missing), &cfg, "hashscale giant".into()); std::mem::forget(c); ledger_reset(); return; }
        // traversal order is insertion order here
        let order_ok = w.forward.iter().enumerate().step_by(1013).all(|(i, nd)| unsafe { (*nd.key).id } == i as u32);
        if !order_ok { fail(out, "C05", "order", format!("after {} of a cache with {} entries the recency order is no longer the insertion order", name, len0), &cfg, "hashscale giant".into()); }
    }
    let keep = 5000usize.min(n / 2);
    let (len0, h0) = (c.len(), counts()[C_HASH]);
    c.set_max_size(keep * base);
    let d = counts()[C_HASH] - h0;
    check_bound(out, &cfg, "set_max_size giant", d, len0 - c.len(), false, len0, n);
    out.stats.count("c20_giant_cases");
    // retain that rejects almost everything, clear, drain: bounded in the same way
    for id in n as u32..(n + n / 4) as u32 { let _ = c.insert(TKey::new(id, 0), TVal::new(0)); }
    c.set_max_size(usize::MAX);
    for id in 0..(n / 2) as u32 { let _ = c.insert(TKey::new(id, 0), TVal::new(0)); }
    let (len0, h0) = (c.len(), counts()[C_HASH]);
    c.retain(|k, _| k.id % 1000 == 0);
    let d = counts()[C_HASH] - h0;
    check_bound(out, &cfg, "retain giant", d, len0 - c.len(), false, len0, n);
    let h0 = counts()[C_HASH];
    c.clear();
    if counts()[C_HASH] != h0 { fail(out, "C20", "hash-free", format!("clear of a giant cache computed {} key hashes", counts()[C_HASH] - h0), &cfg, "hashscale giant".into()); }
    drop(c);
    ledger_reset();
}

fn check_bound(out: &mut RunOut, cfg: &HistCfg, name: &str, hashes: u64, dep: usize, rebuilt: bool, len0: usize, n: usize) {
    let bound = 2 + dep as u64 + if rebuilt { len0 as u64 + 1 } else { 0 };
    out.stats.events += 1;
    out.stats.eval("C20", mix(&[name.len() as u64, name.bytes().map(|b| b as u64).sum::<u64>(), n as u64, dep.min(6) as u64, rebuilt as u64]));
    out.stats.maxf(format_args!("c20_scale_{}_max_hashes_minus_departures_n{}", name.replace(' ', "_").replace('/', "_"), n), hashes.saturating_sub(dep as u64).saturating_sub(if rebuilt { len0 as u64 } else { 0 }));
    out.stats.countf(format_args!("c20_scale_ops_n{}", n));
    if rebuilt { out.stats.count("c20_scale_rebuilds"); }
    if hashes > bound { fail(out, "C20", "bound", format!("{} with {} entries held computed {} key hashes; {} entries left, table rebuilt: {}; bound {}", name, len0, hashes, dep, rebuilt, bound), cfg, "hashscale".into()); }
}

// ------------------------------------------------------------------------------ reallocation at every position of base histories

/// For a generated base history H and every position i and every reallocating operation r, run H[..i] . r . H[i..]
/// through the ordinary engine (all oracles on). r's argument is computed from the observed state so that it really rebuilds.
pub fn run_interleave(seed: u64, budget_events: u64, out: &mut RunOut) {
    let base = base_entry_size();
    let mut rng = Rng::new(seed);
    let opts = HistOpts::default();
    while out.stats.events < budget_events {
        let prof = profile(["order", "map", "mixed", "clone"][rng.usize_below(4)]);
        let mut cfg = make_cfg(&mut rng, &prof, base);
        cfg.events = rng.range(4, 30);
        if cfg.max < (base + 60) * 3 && rng.chance(3, 4) { cfg.max = (base + 60) * rng.range(3, 30); }
        // record a concrete base history
        let mut recorded: Vec<Op> = Vec::new();
        {
            let target_len = rng.range(prof.fill.0, prof.fill.1).min(cfg.universe as usize);
            let mut g = Gen { rng: Rng::new(rng.next()), prof: prof.clone(), base, orig_max: cfg.max, target_len };
            let mut tmp = RunOut::new();
            let mut rec = |pre: &Obs, step: usize| -> Option<Op> { if step >= cfg.events { return None; } let op = g.next_op(pre, &cfg, 1, 0); let op = if matches!(op, Op::Into { .. } | Op::DropCache { .. } | Op::Switch { .. } | Op::CloneCache | Op::TryReserveFail { .. }) { Op::Scalars } else { op }; recorded.push(op.clone()); Some(op) };
            run_history(&cfg, Source::Dynamic(&mut rec), &mut tmp, &opts);
            if !tmp.failures.is_empty() { for f in tmp.failures { out.failures.push(f); } for (k, v) in tmp.viol_counts { *out.viol_counts.entry(k).or_insert(0) += v; } continue; }
        }
        for i in 0..=recorded.len() {
            for r in 0..6u8 {
                let h = &recorded;
                let mut dynf = |pre: &Obs, step: usize| -> Option<Op> {
                    if step < i { return h.get(step).cloned(); }
                    if step == i {
                        return Some(match r {
                            0 => Op::Reserve { n: pre.cap.saturating_sub(pre.len) + 1 },
                            1 => Op::TryReserve { n: pre.cap.saturating_sub(pre.len) + 1 + pre.cap },
                            2 => Op::ShrinkFit,
                            3 => Op::ShrinkTo { n: pre.len },
                            4 => Op::Reserve { n: 2 * pre.cap + 7 },
                            _ => Op::CloneCache,
                        });
                    }
                    if step == i + 1 && r == 5 { return Some(Op::Switch { idx: 1 }); } // carry on with the clone
                    h.get(step - 1 - (r == 5) as usize).cloned()
                };
                run_history(&cfg, Source::Dynamic(&mut dynf), out, &opts);
                out.stats.count("interleaved_histories");
            }
        }
        out.stats.count("interleave_base_histories");
    }
}

// ------------------------------------------------------------------------------ real-heap profile

/// `LruCache<String, Vec<u8>>` with the library's own size estimation (capacity-based, real reallocation inside mutate).
pub fn run_realheap(seed: u64, budget_events: u64, out: &mut RunOut) {
    let mut rng = Rng::new(seed);
    let e0 = entry_size(&String::new(), &Vec::<u8>::new());
    while out.stats.events < budget_events {
        let universe = rng.range(3, 20);
        let max = match rng.below(8) { 0 => 0, 1 => e0, 2 => usize::MAX, _ => (e0 + 40) * rng.range(1, 12) + rng.usize_below(60) };
        let cfg = HistCfg { hk: 4, cap0: None, max, universe: universe as u32, events: 0, extreme: false };
        let mut c: LruCache<String, Vec<u8>> = if rng.chance(1, 2) { LruCache::new(max) } else { LruCache::with_capacity(max, rng.usize_below(30)) };
        let key = |i: usize| -> String { let mut s = String::with_capacity(i % 7 + 2); s.push_str(&format!("k{}", i)); s };
        let mut log: Vec<String> = Vec::new();
        let mut stale = false; // the cache is a clone whose records were copied from differently sized originals (D7)
        for _ in 0..rng.range(20, 200) {
            let id = rng.usize_below(universe);
            let what = match rng.below(12) {
                0..=3 => { let cap = match rng.below(4) { 0 => 0, 1 => c.max_size().saturating_sub(c.current_size()).saturating_sub(e0 + 8).min(4096), _ => rng.usize_below(120) }; let mut v = Vec::with_capacity(cap); for _ in 0..rng.usize_below(cap + 1).min(16) { v.push(7u8); } let _ = c.insert(key(id), v); format!("insert k{} cap {}", id, cap) }
                4 => { let _ = c.try_insert(key(id), vec![0u8; rng.usize_below(64)]); format!("try_insert k{}", id) }
                5 | 6 => {
                    let grow = rng.usize_below(200);
                    let r = c.mutate(&key(id), |v| { match grow % 5 { 0 => v.reserve(grow), 1 => { v.truncate(grow % 3); v.shrink_to_fit(); } 2 => v.extend(std::iter::repeat(1u8).take(grow)), 3 => { v.clear(); } _ => { if let Some(x) = v.first_mut() { *x ^= 1; } } } });
                    // C11: a completed mutate "updates its accounted size to the new value's size" - also when the record was
                    // out of date before (a clone that copied the records of differently sized originals, D7)
                    if let Ok(Some(())) = r {
                        let w = c.verif_walk(c.len() + 4);
                        for n in &w.forward {
                            let (k, v) = unsafe { (&*n.key, &*n.value) };
                            if *k == key(id) {
                                out.stats.eval("C11", mix(&[4011, (grow % 5) as u64, stale as u64, (n.size == entry_size(k, v)) as u64]));
                                out.stats.count(if stale { "c11_realheap_mutates_in_stale_clone" } else { "c11_realheap_mutates" });
                                if n.size != entry_size(k, v) { fail(out, "C11", "realheap-mutate-record", format!("String/Vec<u8> cache: after a completed `mutate k{} variant {}` the size recorded for the entry is {}, entry_size(key, value) = {}", id, grow % 5, n.size, entry_size(k, v)), &cfg, log.join("; ")); }
                            }
                        }
                    }
                    format!("mutate k{} variant {} by {}", id, grow % 5, grow) }
                7 => { c.remove(&key(id)); format!("remove k{}", id) }
                8 => { c.get(key(id).as_str()); format!("get k{} (borrowed str)", id) }
                9 => { let m = match rng.below(4) { 0 => c.current_size(), 1 => c.current_size().saturating_sub(1), 2 => max, _ => rng.usize_below(c.current_size() + 100) }; c.set_max_size(m); format!("set_max_size {}", m) }
                10 => { match rng.below(3) { 0 => { c.reserve(rng.usize_below(40)); "reserve".to_string() } 1 => { c.shrink_to_fit(); "shrink_to_fit".to_string() } _ => { let d = c.clone(); c = d; "clone (continuing with the clone)".to_string() } } }
                _ => { let mask = rng.next(); c.retain(|k, _| (mask >> (k.len() % 8)) & 1 == 1); "retain".to_string() }
            };
            log.push(what);
            out.stats.events += 1;
            let sum: u128 = c.iter().map(|(k, v)| entry_size(k, v) as u128).sum();
            let rec_sum: u128 = c.verif_walk(c.len() + 4).forward.iter().map(|n| n.size as u128).sum();
            out.stats.eval("C02", mix(&[4000, c.len().min(12) as u64, (sum % 5) as u64, log.last().unwrap().len() as u64 % 7]));
            out.stats.eval("C01", mix(&[4001, c.len().min(12) as u64, (c.current_size() == c.max_size()) as u64]));
            out.stats.count("c02_realheap_events");
            // current_size() must always equal the sum of the sizes recorded for the entries (hook) ...
            if c.current_size() as u128 != rec_sum || c.len() != c.iter().count() || (c.current_size() == 0) != c.is_empty() {
                fail(out, "C02", "realheap-recorded-sum", format!("String/Vec<u8> cache after `{}`: current_size() = {}, sizes recorded for the {} entries sum to {}, is_empty() = {}", log.last().unwrap(), c.current_size(), c.len(), rec_sum, c.is_empty()), &cfg, log.join("; "));
                break;
            }
            // ... and the sum of entry_size over the entries; after a clone whose copies lost spare capacity this is the known
            // finding D7 (the clone carries the source's records): report it once and go on with the recorded-sum identity only
            if !stale && c.current_size() as u128 != sum {
                let sig = if log.last().unwrap().starts_with("clone") { "realheap-sum-after-clone" } else { "realheap-sum" };
                fail(out, "C02", sig, format!("String/Vec<u8> cache after `{}`: current_size() = {}, sum of entry_size over {} entries = {}", log.last().unwrap(), c.current_size(), c.len(), sum), &cfg, log.join("; "));
                if sig == "realheap-sum" { break; }
                stale = true;
                out.stats.count("c02_realheap_histories_continued_after_clone");
            }
            if stale {
                if c.current_size() > c.max_size() { fail(out, "C01", "realheap-bound", format!("String/Vec<u8> cache (a clone) after `{}`: current_size() = {} > max_size() = {}", log.last().unwrap(), c.current_size(), c.max_size()), &cfg, log.join("; ")); break; }
                continue;
            }
            if c.current_size() > c.max_size() || sum > c.max_size() as u128 { fail(out, "C01", "realheap-bound", format!("String/Vec<u8> cache after `{}`: current_size() = {} (sum {}) > max_size() = {}", log.last().unwrap(), c.current_size(), sum, c.max_size()), &cfg, log.join("; ")); break; }
        }
    }
}

// ------------------------------------------------------------------------------ C13: capacity promises at large arguments

/// with_capacity(n) must offer n and take n fresh insertions without its capacity changing — also for n in the
/// hundreds of thousands; reserve / try_reserve / shrink with large arguments.
pub fn run_bigcap(seed: u64, max_n: usize, out: &mut RunOut) {
    let mut rng = Rng::new(seed);
    let cfg = HistCfg { hk: 3, cap0: None, max: usize::MAX, universe: 0, events: 0, extreme: false };
    let mut ns: Vec<usize> = vec![0, 1, 2, 3, 4, 7, 8, 14, 15, 28, 29, 56, 57, 100, 448, 449, 1000, 3584, 5000, 14336, 20000, 30000, 60000, 100000, 250000, 1000000];
    ns.retain(|n| *n <= max_n);
    for _ in 0..6 { ns.push(rng.range(30, max_n.min(200000))); }
    for n in ns {
        for ctor in 0..2u8 {
            let what = format!("{}(usize::MAX, {})", if ctor == 0 { "with_capacity" } else { "with_capacity_and_hasher" }, n);
            macro_rules! body { ($c:expr) => {{
                let mut c = $c;
                let cap0 = c.capacity();
                out.stats.eval("C13", mix(&[8800, ctor as u64, (n as f64).log2() as u64]));
                out.stats.count("c13_bigcap_constructions");
                if n >= 20000 { out.stats.count("c13_bigcap_constructions_20000_plus"); }
                if cap0 < n { fail(out, "C13", "ctor-capacity", format!("{} provides capacity {}", what, cap0), &cfg, what.clone()); }
                let mut changed_at = None;
                for i in 0..n as u32 { let _ = c.insert(i, i); if c.capacity() != cap0 && changed_at.is_none() { changed_at = Some((i, c.capacity())); break; } }
                out.stats.add("c13_bigcap_insertions", n as u64);
                out.stats.events += n as u64 / 64 + 1;
                if let Some((i, cap)) = changed_at { fail(out, "C13", "with-capacity-changed", format!("{}: capacity changed from {} to {} at fresh insertion #{}", what, cap0, cap, i + 1), &cfg, what.clone()); }
                else if c.len() != n { fail(out, "C04", "lost", format!("{}: {} of {} fresh entries held with limit usize::MAX", what, c.len(), n), &cfg, what.clone()); }
                // reserve / try_reserve / shrink at this scale
                let len = c.len();
                for add in [0usize, 1, n / 2 + 1, 50000] {
                    let before = c.capacity();
                    if rng.chance(1, 2) { c.reserve(add); } else if c.try_reserve(add).is_err() { fail(out, "C13", "try-reserve-failed", format!("{}: try_reserve({}) failed with {} entries", what, add, len), &cfg, what.clone()); }
                    if c.capacity() < len + add { fail(out, "C13", "reserve-bound", format!("{} then reserve({}): capacity {} < len {} + additional", what, add, c.capacity(), len), &cfg, what.clone()); }
                    if c.capacity() < before { fail(out, "C13", "reserve-shrank", format!("{} then reserve({}): capacity fell from {} to {}", what, add, before, c.capacity()), &cfg, what.clone()); }
                    out.stats.eval_only("C13");
                }
                let before = c.capacity();
                let m = len + rng.usize_below(len / 2 + 2);
                c.shrink_to(m);
                if c.capacity() > before || c.capacity() < m.min(before) { fail(out, "C13", "shrink-bounds", format!("{} then shrink_to({}): capacity {} -> {} with {} entries", what, m, before, c.capacity(), len), &cfg, what.clone()); }
                c.shrink_to_fit();
                if c.capacity() < len || c.len() != len { fail(out, "C13", "shrink-bounds", format!("{} then shrink_to_fit: capacity {} with {} entries", what, c.capacity(), len), &cfg, what.clone()); }
                // a clone keeps at least the source's capacity, also at this scale
                { let before = c.capacity(); let d = c.clone(); out.stats.eval_only("C14");
                  if d.capacity() < before || d.len() != len { fail(out, "C14", "clone-capacity", format!("{}: clone has capacity {} and {} entries, its source {} and {}", what, d.capacity(), d.len(), before, len), &cfg, what.clone()); } }
                if len > 0 && (c.peek_lru().map(|(k, _)| *k) != Some(0) || c.peek_mru().map(|(k, _)| *k) != Some(len as u32 - 1)) { fail(out, "C13", "not-transparent", format!("{}: order changed by capacity operations", what), &cfg, what.clone()); }
                if out.stats.samples.get("C13").map(|v| v.len()).unwrap_or(0) < 4 && n >= 1000 { out.stats.sample("C13", format!("{}: capacity {} unchanged through {} fresh insertions; after reserve/shrink: {}", what, cap0, n, c.capacity())); }
            }}; }
            if ctor == 0 { body!(LruCache::<u32, u32>::with_capacity(usize::MAX, n)); } else { body!(LruCache::<u32, u32, TH>::with_capacity_and_hasher(usize::MAX, n, TH(3, next_hasher_seed()))); }
        }
    }
}

/// Tables that span hundreds of megabytes of (mostly untouched) address space: a clone must still keep the capacity.
pub fn run_hugecap(out: &mut RunOut) {
    let cfg = HistCfg { hk: 4, cap0: None, max: usize::MAX, universe: 0, events: 0, extreme: false };
    let avail_kb: u64 = std::fs::read_to_string("/proc/meminfo").ok().and_then(|m| m.lines().find(|l| l.starts_with("MemAvailable:")).and_then(|l| l.split_whitespace().nth(1).and_then(|x| x.parse().ok()))).unwrap_or(0);
    if avail_kb < 12 * 1024 * 1024 { out.stats.count("c14_hugecap_skipped_low_memory"); return; }
    // (a) entries that are large inline: 64 KiB values, capacity for 14000 of them (about 1 GiB of address space)
    {
        let mut c: LruCache<u32, [u8; 65536]> = LruCache::new(usize::MAX);
        if c.try_reserve(14000).is_ok() {
            for i in 0..3u32 { let _ = c.insert(i, [i as u8; 65536]); }
            let d = c.clone();
            out.stats.eval("C14", mix(&[9100, 1])); out.stats.eval("C13", mix(&[9100, 1])); out.stats.count("c14_hugecap_clones"); out.stats.events += 1;
            if d.capacity() < c.capacity() || d.len() != 3 { fail(out, "C14", "clone-capacity", format!("LruCache<u32, [u8; 65536]> with capacity {}: clone has capacity {}", c.capacity(), d.capacity()), &cfg, "hugecap large-inline".into()); }
            if c.capacity() < 14003 - 3 { fail(out, "C13", "reserve-bound", format!("try_reserve(14000) left capacity {}", c.capacity()), &cfg, "hugecap".into()); }
        } else { out.stats.count("c14_hugecap_skipped_alloc_refused"); }
    }
    // (c) a table with more than 2^25 buckets (about 2 GiB of address space, of which only the control bytes are touched):
    //     live entries moved into it must still be found, in the same order
    {
        let mut c: LruCache<u32, u32> = LruCache::new(usize::MAX);
        for i in 0..2000u32 { let _ = c.insert(i.wrapping_mul(2654435761), i); }
        if c.try_reserve(30_000_000).is_ok() {
            out.stats.eval("C04", mix(&[9100, 3])); out.stats.eval("C13", mix(&[9100, 3])); out.stats.count("c14_hugecap_clones"); out.stats.count("c04_lookups_in_table_beyond_2_25_buckets"); out.stats.events += 1;
            let missing = (0..2000u32).filter(|i| c.peek(&i.wrapping_mul(2654435761)) != Some(i)).count();
            if missing > 0 { fail(out, "C04", "lookup", format!("after try_reserve(30000000) on 2000 entries, {} keys can no longer be looked up", missing), &cfg, "hugecap beyond 2^25 buckets".into()); }
            let order_ok = c.iter().map(|(_, v)| *v).eq(0..2000u32);
            if !order_ok || c.len() != 2000 { fail(out, "C13", "not-transparent", "try_reserve(30000000) changed contents or order".to_string(), &cfg, "hugecap".into()); }
            c.shrink_to_fit();
            let missing = (0..2000u32).filter(|i| c.peek(&i.wrapping_mul(2654435761)) != Some(i)).count();
            if missing > 0 || c.capacity() < 2000 { fail(out, "C04", "lookup", format!("after shrink_to_fit from the huge table, {} keys missing, capacity {}", missing, c.capacity()), &cfg, "hugecap".into()); }
        } else { out.stats.count("c14_hugecap_skipped_alloc_refused"); }
    }
    // (b) small entries, twelve million spare buckets (several hundred MiB of address space)
    {
        let mut c: LruCache<u32, u32> = LruCache::new(usize::MAX);
        if c.try_reserve(12_000_000).is_ok() {
            for i in 0..1000u32 { let _ = c.insert(i, i); }
            let d = c.clone();
            out.stats.eval("C14", mix(&[9100, 2])); out.stats.eval("C13", mix(&[9100, 2])); out.stats.count("c14_hugecap_clones"); out.stats.events += 1;
            if d.capacity() < c.capacity() || d.len() != 1000 { fail(out, "C14", "clone-capacity", format!("LruCache<u32, u32> with capacity {}: clone has capacity {}", c.capacity(), d.capacity()), &cfg, "hugecap small-entries".into()); }
            let before = c.capacity();
            c.shrink_to(6_000_000);
            if c.capacity() > before || c.capacity() < 6_000_000 { fail(out, "C13", "shrink-bounds", format!("shrink_to(6000000) took capacity from {} to {}", before, c.capacity()), &cfg, "hugecap".into()); }
        } else { out.stats.count("c14_hugecap_skipped_alloc_refused"); }
    }
}

pub fn _unused(_: &Viol) {}

// ------------------------------------------------------------------------------ C14: clone when the allocator refuses

/// One process per case: the k-th allocation made inside `clone()` / `clone_from()` is refused. The crate's clone is
/// infallible, so the expected outcome is that the process aborts (handle_alloc_error) - the driver accepts exactly that.
/// If clone *returns*, what it returns must still be a clone as C14 describes it (in particular: at least the source's capacity).
pub fn run_clone_refusal(case: u64, out: &mut RunOut) {
    let n = [0usize, 1, 5, 40, 300][(case % 5) as usize];
    let cap0 = [None, Some(n), Some(4096), Some(60_000)][((case / 5) % 4) as usize];
    let use_clone_from = (case / 20) % 2 == 1;
    let k = 1 + (case / 40) % 3;
    let hk = TH_KINDS[(case % TH_KINDS.len() as u64) as usize];
    let cfg = HistCfg { hk, cap0, max: usize::MAX >> 1, universe: n as u32, events: 0, extreme: false };
    ledger_reset(); ledger_strict(false);
    let mut c: Cache<TH> = TH::make(cfg.max, cfg.cap0, hk);
    for id in 0..n as u32 { let _ = c.insert(TKey::new(id, (id % 4) as usize), TVal::new((id % 9) as usize)); }
    if n >= 5 { c.remove(&KeyId(1)); c.touch(&KeyId(0)); }
    let before = observe(&c, &ObsOpts { universe: 0, owned_form: false, traversals: false, limit: c.len() + 8 });
    let mut target: Cache<TH> = TH::make(1000, Some(3), hk);
    let _ = target.insert(TKey::new(7, 0), TVal::new(0));
    { use std::io::Write; println!("CASE clone_refusal armed: {} of a cache with {} entries, capacity {}, refusing allocation #{}", if use_clone_from { "clone_from" } else { "clone" }, c.len(), c.capacity(), k); let _ = std::io::stdout().flush(); }
    crate::valloc::fail_nth(k);
    let d: Cache<TH> = if use_clone_from { target.clone_from(&c); target } else { drop(target); c.clone() };
    let refused = crate::valloc::fail_off();
    out.stats.events += 1;
    out.stats.eval("C14", mix(&[1414, case]));
    out.stats.count(if refused > 0 { "c14_clone_returned_although_an_allocation_was_refused" } else { "c14_clone_refusal_not_reached" });
    let after = observe(&c, &ObsOpts { universe: 0, owned_form: false, traversals: false, limit: c.len() + 8 });
    let od = observe(&d, &ObsOpts { universe: n as u32 + 1, owned_form: false, traversals: true, limit: d.len() + 8 });
    let what = format!("{} with allocation #{} refused ({} refusals happened)", if use_clone_from { "clone_from" } else { "clone" }, k, refused);
    if d.capacity() < c.capacity() { fail(out, "C14", "clone-capacity", format!("{}: the clone's capacity is {}, the source's {}", what, d.capacity(), c.capacity()), &cfg, "clone_refusal".into()); }
    if od.ids() != before.ids() || od.cur != before.cur || od.max != before.max || !od.g1.is_empty() || !od.g2.is_empty() || !od.g3.is_empty() { fail(out, "C14", "clone-equal", format!("{}: the clone holds {:?} (current_size {}), the source {:?} ({}); structure notes {:?}", what, od.ids(), od.cur, before.ids(), before.cur, od.g1), &cfg, "clone_refusal".into()); }
    if after.fingerprint != before.fingerprint { fail(out, "C14", "source-changed", format!("{}: the source changed", what), &cfg, "clone_refusal".into()); }
    drop(d); drop(c);
    ledger_reset();
}

// ------------------------------------------------------------------------------ C14: clone_from onto targets of every table size

/// Sources whose reported capacity has been worn down by tombstones to every value between two table sizes, cloned with
/// `clone()` and `clone_from()` onto targets of the neighbouring table sizes: the result must have at least the source's
/// capacity and equal it in contents, order, sizes and limit; the source stays as it was.
pub fn run_clonefrom(seed: u64, budget: u64, out: &mut RunOut) {
    let mut rng = Rng::new(seed ^ 0xc10e);
    ledger_reset(); ledger_strict(false);
    while out.stats.events < budget {
        let hk = TH_KINDS[rng.usize_below(TH_KINDS.len())];
        let start = [14usize, 28, 56, 112][rng.usize_below(4)];
        let cfg = HistCfg { hk, cap0: Some(start), max: usize::MAX >> 1, universe: 4 * start as u32, events: 0, extreme: false };
        let mut src: Cache<TH> = TH::make(cfg.max, cfg.cap0, hk);
        let mut next = 0u32;
        for _ in 0..start { let _ = src.insert(TKey::new(next, 0), TVal::new((next % 7) as usize)); next += 1; }
        let buckets0 = src.verif_table().0;
        // wear: remove from the middle of occupied runs and add fresh keys while the table keeps its size
        for _ in 0..rng.range(0, 3 * start) {
            if src.len() > 2 && rng.chance(3, 5) { let id = next.wrapping_sub(1 + rng.below(src.len() as u64) as u32); src.remove(&KeyId(id)); }
            else if src.len() < src.capacity() { let _ = src.insert(TKey::new(next, 0), TVal::new(0)); next += 1; }
            if src.verif_table().0 != buckets0 { break; }
        }
        let before = observe(&src, &ObsOpts { universe: 0, owned_form: false, traversals: false, limit: src.len() + 8 });
        for tcap in [0usize, 3, 7, 14, 28, 56, 112, 224] {
            out.stats.events += 1;
            let mut dst: Cache<TH> = TH::make(1000, Some(tcap), hk);
            for i in 0..rng.usize_below(4) { let _ = dst.insert(TKey::new(900_000 + i as u32, 0), TVal::new(0)); }
            let tb = dst.verif_table().0;
            dst.clone_from(&src);
            let window = src.capacity() > tb / 8 * 7 && src.capacity() <= tb;
            if window { out.stats.count("c14_clone_from_source_capacity_between_target_capacity_and_buckets"); }
            out.stats.eval("C14", mix(&[1415, tcap as u64, window as u64, (src.capacity() > src.len()) as u64, hk as u64]));
            let od = observe(&dst, &ObsOpts { universe: next.min(300) + 1, owned_form: false, traversals: true, limit: dst.len() + 8 });
            let what = format!("clone_from a source with {} entries, capacity {} ({} buckets) onto a target built with_capacity({}) ({} buckets)", src.len(), src.capacity(), buckets0, tcap, tb);
            if dst.capacity() < src.capacity() { fail(out, "C14", "clone-capacity", format!("{}: the target's capacity is {}", what, dst.capacity()), &cfg, "clonefrom".into()); }
            if od.ids() != before.ids() || od.cur != before.cur || od.max != before.max || od.ents.iter().zip(before.ents.iter()).any(|(a, b)| a.rec != b.rec || a.kuid == b.kuid) || !od.g1.is_empty() || !od.g2.is_empty() || !od.g3.is_empty() {
                fail(out, "C14", "clone-equal", format!("{}: the target holds {:?} (current_size {}, limit {}), the source {:?} ({}, {}); notes {:?} {:?}", what, od.ids(), od.cur, od.max, before.ids(), before.cur, before.max, od.g1, od.g3), &cfg, "clonefrom".into());
            }
            let after = observe(&src, &ObsOpts { universe: 0, owned_form: false, traversals: false, limit: src.len() + 8 });
            if after.fingerprint != before.fingerprint { fail(out, "C14", "source-changed", format!("{}: the source changed", what), &cfg, "clonefrom".into()); }
            // the clone is a cache of its own: it takes entries up to its capacity without disturbing the source
            let room = dst.capacity() - dst.len();
            for i in 0..room.min(6) { let _ = dst.insert(TKey::new(800_000 + i as u32, 0), TVal::new(1)); }
            let o3 = observe(&dst, &ObsOpts { universe: 0, owned_form: false, traversals: true, limit: dst.len() + 8 });
            for m in o3.g1.iter().chain(o3.g2.iter()) { fail(out, "C14", "clone-structure", format!("{}, then {} insertions into the target: {}", what, room.min(6), m), &cfg, "clonefrom".into()); }
            drop(dst);
        }
        drop(src);
        ledger_reset();
    }
}
