//! Concrete operations, their text form (for replays), and their execution against the
//! real cache with everything the monitors need recorded at the API boundary.

use crate::types::*;
use crate::valloc;
use hashbrown::hash_map::DefaultHashBuilder;
use lru_mem::{InsertError, LruCache, MutateError, TryInsertError};
use std::hash::BuildHasher;
use std::panic::{catch_unwind, AssertUnwindSafe};

pub type Cache<S> = LruCache<TKey, TVal, S>;

/// Hasher families the engine can be instantiated with.
pub trait HB: BuildHasher + Clone + Send + Sync + 'static {
    const IS_DEFAULT: bool;
    fn make(max: usize, cap: Option<usize>, hk: u8) -> Cache<Self>;
}
impl HB for TH {
    const IS_DEFAULT: bool = false;
    fn make(max: usize, cap: Option<usize>, hk: u8) -> Cache<TH> {
        match cap {
            None => LruCache::with_hasher(max, TH(hk, next_hasher_seed())),
            Some(c) => LruCache::with_capacity_and_hasher(max, c, TH(hk, next_hasher_seed())),
        }
    }
}
impl HB for DefaultHashBuilder {
    const IS_DEFAULT: bool = true;
    fn make(max: usize, cap: Option<usize>, _hk: u8) -> Cache<DefaultHashBuilder> {
        match cap {
            None => LruCache::new(max),
            Some(c) => LruCache::with_capacity(max, c),
        }
    }
}

thread_local! { static CUR_HK: std::cell::Cell<u8> = const { std::cell::Cell::new(3) }; }
/// hasher kind new sibling caches are built with (set by the engine per history)
pub fn set_current_hk(hk: u8) { CUR_HK.with(|c| c.set(hk)); }
fn hk_of<S: HB>(_c: &Cache<S>) -> u8 { CUR_HK.with(|c| c.get()) }

pub const IT_ITER: u8 = 0;
pub const IT_KEYS: u8 = 1;
pub const IT_VALUES: u8 = 2;
pub const IT_DRAIN: u8 = 3;
pub const IT_INTO_ITER: u8 = 4;
pub const IT_INTO_KEYS: u8 = 5;
pub const IT_INTO_VALUES: u8 = 6;
/// what is done with the iterator after the next/next_back calls: nothing, or one of the provided Iterator methods
pub const FIN_NAMES: [&str; 16] = ["-", "last", "count", "nth1", "nth_back1", "size_hint", "fold", "rev_fold", "consumer_panics", "for_each", "find_none", "rfind_none", "collect", "position_none", "all_true", "any_false"];
pub const N_FIN: u64 = 16;
pub const CONSUMER_PANIC: &str = "consumer-panic (the code using the iterator panics; the iterator is dropped during unwinding)";
pub const IT_NAMES: [&str; 7] = ["iter", "keys", "values", "drain", "into_iter", "into_keys", "into_values"];

#[derive(Clone, Debug, PartialEq)]
pub enum Op {
    Insert { id: u32, kh: usize, vh: usize },
    TryInsert { id: u32, kh: usize, vh: usize },
    Get { id: u32, owned: bool },
    GetEntry { id: u32, owned: bool },
    Peek { id: u32, owned: bool },
    PeekEntry { id: u32, owned: bool },
    Contains { id: u32, owned: bool },
    Touch { id: u32, owned: bool },
    GetLru,
    PeekLru,
    PeekMru,
    Remove { id: u32, owned: bool },
    RemoveEntry { id: u32, owned: bool },
    RemoveLru,
    RemoveMru,
    Mutate { id: u32, owned: bool, vh: usize },
    SetMax { m: usize },
    /// predicate rejects exactly the listed ids
    Retain { reject: Vec<u32> },
    Reserve { n: usize },
    TryReserve { n: usize },
    /// try_reserve with the allocator refusing its `fail_at`-th request
    TryReserveFail { n: usize, fail_at: u64 },
    ShrinkTo { n: usize },
    ShrinkFit,
    Clear,
    /// kind 0..=3 (iter, keys, values, drain); calls: false = next, true = next_back
    Iterate { kind: u8, calls: Vec<bool>, forget: bool, fin: u8 },
    /// kind 4..=6; consumes the current cache
    Into { kind: u8, calls: Vec<bool>, forget: bool, fin: u8 },
    Debug,
    /// push a clone of the current cache
    CloneCache,
    Switch { idx: usize },
    DropCache { idx: usize },
    /// observe only: len/is_empty/current_size/max_size/capacity/hasher
    Scalars,
    /// push an independently constructed cache (its own hasher instance)
    NewCache { max: usize, cap0: Option<usize> },
    /// `current.clone_from(&caches[src])`
    CloneFrom { src: usize },
}

impl Op {
    pub fn kind(&self) -> &'static str {
        match self {
            Op::Insert { .. } => "insert", Op::TryInsert { .. } => "try_insert", Op::Get { .. } => "get",
            Op::GetEntry { .. } => "get_entry", Op::Peek { .. } => "peek", Op::PeekEntry { .. } => "peek_entry",
            Op::Contains { .. } => "contains", Op::Touch { .. } => "touch", Op::GetLru => "get_lru",
            Op::PeekLru => "peek_lru", Op::PeekMru => "peek_mru", Op::Remove { .. } => "remove",
            Op::RemoveEntry { .. } => "remove_entry", Op::RemoveLru => "remove_lru", Op::RemoveMru => "remove_mru",
            Op::Mutate { .. } => "mutate", Op::SetMax { .. } => "set_max_size", Op::Retain { .. } => "retain",
            Op::Reserve { .. } => "reserve", Op::TryReserve { .. } => "try_reserve", Op::TryReserveFail { .. } => "try_reserve_fail",
            Op::ShrinkTo { .. } => "shrink_to", Op::ShrinkFit => "shrink_to_fit", Op::Clear => "clear",
            Op::Iterate { kind, .. } => IT_NAMES[*kind as usize], Op::Into { kind, .. } => IT_NAMES[*kind as usize],
            Op::Debug => "debug", Op::CloneCache => "clone", Op::Switch { .. } => "switch", Op::DropCache { .. } => "drop_cache",
            Op::Scalars => "scalars", Op::NewCache { .. } => "new_cache", Op::CloneFrom { .. } => "clone_from",
        }
    }
    pub fn kind_index(&self) -> u64 {
        const KINDS: [&str; 38] = ["new_cache", "clone_from", "insert", "try_insert", "get", "get_entry", "peek", "peek_entry", "contains", "touch", "get_lru",
            "peek_lru", "peek_mru", "remove", "remove_entry", "remove_lru", "remove_mru", "mutate", "set_max_size", "retain", "reserve",
            "try_reserve", "try_reserve_fail", "shrink_to", "shrink_to_fit", "clear", "iter", "keys", "values", "drain", "into_iter",
            "into_keys", "into_values", "debug", "clone", "switch", "drop_cache", "scalars"];
        let k = self.kind();
        KINDS.iter().position(|x| *x == k).unwrap_or(63) as u64
    }
    /// the logical key an operation addresses, if any
    pub fn target_id(&self) -> Option<u32> {
        match self {
            Op::Insert { id, .. } | Op::TryInsert { id, .. } | Op::Get { id, .. } | Op::GetEntry { id, .. } | Op::Peek { id, .. }
            | Op::PeekEntry { id, .. } | Op::Contains { id, .. } | Op::Touch { id, .. } | Op::Remove { id, .. }
            | Op::RemoveEntry { id, .. } | Op::Mutate { id, .. } => Some(*id),
            _ => None,
        }
    }
    pub fn to_text(&self) -> String {
        fn b(x: bool) -> &'static str { if x { "o" } else { "b" } }
        fn calls(c: &[bool]) -> String { if c.is_empty() { "-".to_string() } else { c.iter().map(|x| if *x { 'B' } else { 'F' }).collect() } }
        match self {
            Op::Insert { id, kh, vh } => format!("insert {} {} {}", id, kh, vh),
            Op::TryInsert { id, kh, vh } => format!("try_insert {} {} {}", id, kh, vh),
            Op::Get { id, owned } => format!("get {} {}", id, b(*owned)),
            Op::GetEntry { id, owned } => format!("get_entry {} {}", id, b(*owned)),
            Op::Peek { id, owned } => format!("peek {} {}", id, b(*owned)),
            Op::PeekEntry { id, owned } => format!("peek_entry {} {}", id, b(*owned)),
            Op::Contains { id, owned } => format!("contains {} {}", id, b(*owned)),
            Op::Touch { id, owned } => format!("touch {} {}", id, b(*owned)),
            Op::GetLru => "get_lru".into(), Op::PeekLru => "peek_lru".into(), Op::PeekMru => "peek_mru".into(),
            Op::Remove { id, owned } => format!("remove {} {}", id, b(*owned)),
            Op::RemoveEntry { id, owned } => format!("remove_entry {} {}", id, b(*owned)),
            Op::RemoveLru => "remove_lru".into(), Op::RemoveMru => "remove_mru".into(),
            Op::Mutate { id, owned, vh } => format!("mutate {} {} {}", id, b(*owned), vh),
            Op::SetMax { m } => format!("set_max_size {}", m),
            Op::Retain { reject } => format!("retain {}", if reject.is_empty() { "-".to_string() } else { reject.iter().map(|x| x.to_string()).collect::<Vec<_>>().join(",") }),
            Op::Reserve { n } => format!("reserve {}", n),
            Op::TryReserve { n } => format!("try_reserve {}", n),
            Op::TryReserveFail { n, fail_at } => format!("try_reserve_fail {} {}", n, fail_at),
            Op::ShrinkTo { n } => format!("shrink_to {}", n),
            Op::ShrinkFit => "shrink_to_fit".into(), Op::Clear => "clear".into(),
            Op::Iterate { kind, calls: c, forget, fin } => format!("iterate {} {} {} {}", IT_NAMES[*kind as usize], calls(c), if *forget { "forget" } else { "drop" }, FIN_NAMES[*fin as usize]),
            Op::Into { kind, calls: c, forget, fin } => format!("into {} {} {} {}", IT_NAMES[*kind as usize], calls(c), if *forget { "forget" } else { "drop" }, FIN_NAMES[*fin as usize]),
            Op::Debug => "debug".into(), Op::CloneCache => "clone".into(),
            Op::Switch { idx } => format!("switch {}", idx), Op::DropCache { idx } => format!("drop_cache {}", idx),
            Op::Scalars => "scalars".into(),
            Op::NewCache { max, cap0 } => format!("new_cache {} {}", max, match cap0 { None => "none".to_string(), Some(c) => c.to_string() }),
            Op::CloneFrom { src } => format!("clone_from {}", src),
        }
    }
    pub fn from_text(s: &str) -> Result<Op, String> {
        let t: Vec<&str> = s.split_whitespace().collect();
        if t.is_empty() { return Err("empty op".into()); }
        let num = |i: usize| -> Result<usize, String> { t.get(i).ok_or(format!("missing arg {} in '{}'", i, s))?.parse::<usize>().map_err(|e| format!("{} in '{}'", e, s)) };
        let form = |i: usize| -> Result<bool, String> { match t.get(i) { Some(&"o") => Ok(true), Some(&"b") => Ok(false), _ => Err(format!("bad key form in '{}'", s)) } };
        let calls = |i: usize| -> Result<Vec<bool>, String> { let c = t.get(i).ok_or("missing calls")?; if *c == "-" { Ok(vec![]) } else { c.chars().map(|ch| match ch { 'F' => Ok(false), 'B' => Ok(true), _ => Err(format!("bad call char in '{}'", s)) }).collect() } };
        let itkind = |i: usize| -> Result<u8, String> { let n = t.get(i).ok_or("missing kind")?; IT_NAMES.iter().position(|x| x == n).map(|x| x as u8).ok_or(format!("bad iterator kind in '{}'", s)) };
        let forget = |i: usize| -> Result<bool, String> { match t.get(i) { Some(&"forget") => Ok(true), Some(&"drop") => Ok(false), _ => Err(format!("bad forget flag in '{}'", s)) } };
        Ok(match t[0] {
            "insert" => Op::Insert { id: num(1)? as u32, kh: num(2)?, vh: num(3)? },
            "try_insert" => Op::TryInsert { id: num(1)? as u32, kh: num(2)?, vh: num(3)? },
            "get" => Op::Get { id: num(1)? as u32, owned: form(2)? },
            "get_entry" => Op::GetEntry { id: num(1)? as u32, owned: form(2)? },
            "peek" => Op::Peek { id: num(1)? as u32, owned: form(2)? },
            "peek_entry" => Op::PeekEntry { id: num(1)? as u32, owned: form(2)? },
            "contains" => Op::Contains { id: num(1)? as u32, owned: form(2)? },
            "touch" => Op::Touch { id: num(1)? as u32, owned: form(2)? },
            "get_lru" => Op::GetLru, "peek_lru" => Op::PeekLru, "peek_mru" => Op::PeekMru,
            "remove" => Op::Remove { id: num(1)? as u32, owned: form(2)? },
            "remove_entry" => Op::RemoveEntry { id: num(1)? as u32, owned: form(2)? },
            "remove_lru" => Op::RemoveLru, "remove_mru" => Op::RemoveMru,
            "mutate" => Op::Mutate { id: num(1)? as u32, owned: form(2)?, vh: num(3)? },
            "set_max_size" => Op::SetMax { m: num(1)? },
            "retain" => { let r = t.get(1).ok_or("missing reject list")?; Op::Retain { reject: if *r == "-" { vec![] } else { r.split(',').map(|x| x.parse::<u32>().map_err(|e| e.to_string())).collect::<Result<Vec<_>, _>>()? } } }
            "reserve" => Op::Reserve { n: num(1)? }, "try_reserve" => Op::TryReserve { n: num(1)? },
            "try_reserve_fail" => Op::TryReserveFail { n: num(1)?, fail_at: num(2)? as u64 },
            "shrink_to" => Op::ShrinkTo { n: num(1)? }, "shrink_to_fit" => Op::ShrinkFit, "clear" => Op::Clear,
            "iterate" => Op::Iterate { kind: itkind(1)?, calls: calls(2)?, forget: forget(3)?, fin: t.get(4).and_then(|n| FIN_NAMES.iter().position(|x| x == n)).unwrap_or(0) as u8 },
            "into" => Op::Into { kind: itkind(1)?, calls: calls(2)?, forget: forget(3)?, fin: t.get(4).and_then(|n| FIN_NAMES.iter().position(|x| x == n)).unwrap_or(0) as u8 },
            "debug" => Op::Debug, "clone" => Op::CloneCache,
            "switch" => Op::Switch { idx: num(1)? }, "drop_cache" => Op::DropCache { idx: num(1)? },
            "scalars" => Op::Scalars,
            "new_cache" => Op::NewCache { max: num(1)?, cap0: if t.get(2) == Some(&"none") { None } else { Some(num(2)?) } },
            "clone_from" => Op::CloneFrom { src: num(1)? },
            other => return Err(format!("unknown op '{}'", other)),
        })
    }
}

/// One yielded item of an iterator call: None = the call returned None.
#[derive(Clone, Debug, PartialEq)]
pub struct Yield { pub k: Option<u64>, pub v: Option<u64>, pub kaddr: usize, pub vaddr: usize, pub none: bool }

#[derive(Clone, Debug, Default)]
pub struct Outcome {
    /// "ok", "ok_none", "ok_some", "some", "none", "true", "false", "unit",
    /// "err_too_large", "err_would_eject", "err_occupied", "err_alloc", "err_capacity", "panic"
    pub tag: &'static str,
    pub k: Option<u64>,
    pub v: Option<u64>,
    pub kaddr: usize,
    pub vaddr: usize,
    /// numeric payloads of errors: [entry_size | old_entry_size, max_size | free_memory | new_entry_size, max_size]
    pub n: [usize; 3],
    /// the sizes measured on the returned pair of an error (entry_size(&key,&value))
    pub measured: Option<u128>,
    /// whether the error accessors (entry/key/value) agreed with the fields
    pub accessors_ok: bool,
    pub closure_ran: bool,
    /// (uid, heap, stamp) of the value the mutate closure saw, and the token it returned
    pub closure_saw: Option<(u64, usize, u64)>,
    pub token_in: u64,
    pub token_out: Option<u64>,
    /// returned value's stamp/heap for mutate errors
    pub ret_v_stamp: u64,
    pub ret_v_heap: usize,
    pub yields: Vec<Yield>,
    pub pred_log: Vec<(u32, u64, u64, usize, usize)>,
    pub debug: Option<String>,
    pub panic: Option<String>,
    /// uids of the instrumented objects the harness passed in (key, value)
    pub in_k: Option<u64>,
    pub in_v: Option<u64>,
    /// scalars read by Op::Scalars
    pub scalars: [usize; 5],
    pub alloc_failed: u64,
    /// the iterator type implements Debug: what it printed after the calls
    pub iter_debug_text: Option<String>,
    /// uids dropped while the operation ran (in order), i.e. dropped by the library
    pub drops: Vec<u64>,
    /// result of the finishing call on an iterator: items it produced (in order), a count, a size hint
    pub fin_items: Vec<Yield>,
    pub fin_count: usize,
    pub fin_hint: (usize, Option<usize>),
    pub fin_ran: bool,
}

/// Objects handed back to the harness; dropped outside the operation's drop window.
#[derive(Default)]
pub struct Held { pub keys: Vec<TKey>, pub vals: Vec<TVal> }
impl Held {
    pub fn clear(&mut self) { self.keys.clear(); self.vals.clear(); }
}

pub fn panic_msg(e: Box<dyn std::any::Any + Send>) -> String {
    if let Some(s) = e.downcast_ref::<&str>() { s.to_string() }
    else if let Some(s) = e.downcast_ref::<String>() { s.clone() }
    else { "non-string panic".to_string() }
}

static TOKEN: std::sync::atomic::AtomicU64 = std::sync::atomic::AtomicU64::new(1000);
fn next_token() -> u64 { TOKEN.fetch_add(1, std::sync::atomic::Ordering::Relaxed) }

fn entry_size_u128(k: &TKey, v: &TVal, base: usize) -> u128 { k.heap as u128 + v.heap as u128 + base as u128 }

/// Drives an iterator: the next/next_back calls, then the finishing call (one of Iterator's provided methods, which a
/// library may override), then drop or forget. `$conv` turns an item into a `Yield` (and parks owned items).
thread_local! { static PENDING_ALLOC_FAIL: std::cell::Cell<u64> = std::cell::Cell::new(0); }
/// The next rebuilding operation (reserve, shrink_to, shrink_to_fit, insert) has its n-th allocation refused. Armed right
/// before the library is entered and disarmed as soon as it returns, so that the harness' own allocations are not hit.
pub fn set_pending_alloc_fail(n: u64) { PENDING_ALLOC_FAIL.with(|p| p.set(n)); }
fn arm_pending_alloc_fail() { let n = PENDING_ALLOC_FAIL.with(|p| p.replace(0)); if n > 0 { valloc::fail_nth(n); } }

/// "Format it if it can be formatted": autoref dispatch picks the Debug impl when the iterator type has one (none of the
/// crate's iterators has today) and does nothing otherwise. Formatting a partly consumed iterator must not read entries
/// that were already handed out.
pub struct DebugProbe<'a, T>(pub &'a T);
pub trait ProbeViaDebug { fn render(&self) -> Option<String>; }
impl<'a, T: std::fmt::Debug> ProbeViaDebug for DebugProbe<'a, T> { fn render(&self) -> Option<String> { Some(format!("{:?} {:#?}", self.0, self.0)) } }
pub trait ProbeViaNothing { fn render(&self) -> Option<String> { None } }
impl<'a, T> ProbeViaNothing for &DebugProbe<'a, T> {}

macro_rules! drive {
    ($it:expr, $calls:expr, $forget:expr, $fin:expr, $out:expr, |$x:ident| $conv:expr) => {{
        let mut it = $it;
        for back in $calls.iter() {
            let r = if *back { it.next_back() } else { it.next() };
            $out.yields.push(match r { Some($x) => $conv, None => Yield { k: None, v: None, kaddr: 0, vaddr: 0, none: true } });
        }
        if let Some(text) = (&DebugProbe(&it)).render() { $out.iter_debug_text = Some(text); }
        match $fin {
            1 => { $out.fin_ran = true; if let Some($x) = it.last() { let y = $conv; $out.fin_items.push(y); } }
            2 => { $out.fin_ran = true; $out.fin_count = it.count(); }
            // nth / nth_back, then the iterator is used further from both ends (three slots, `none` where nothing came)
            3 | 4 => {
                $out.fin_ran = true;
                let none = || Yield { k: None, v: None, kaddr: 0, vaddr: 0, none: true };
                let a = if $fin == 3 { it.nth(1) } else { it.nth_back(1) };
                $out.fin_items.push(match a { Some($x) => $conv, None => none() });
                let b = if $fin == 3 { it.next() } else { it.next_back() };
                $out.fin_items.push(match b { Some($x) => $conv, None => none() });
                let c = if $fin == 3 { it.next_back() } else { it.next() };
                $out.fin_items.push(match c { Some($x) => $conv, None => none() });
                if $forget { std::mem::forget(it); }
            }
            5 => { $out.fin_ran = true; $out.fin_hint = it.size_hint(); if $forget { std::mem::forget(it); } }
            // (a runaway traversal must not eat the machine: far more items than any cache here holds is a failure in itself)
            6 => { $out.fin_ran = true; let mut acc = Vec::new(); it.fold((), |_, $x| { let y = $conv; acc.push(y); if acc.len() > 200_000 { panic!("runaway iteration: fold yielded more than 200000 items"); } }); $out.fin_items = acc; }
            7 => { $out.fin_ran = true; let mut acc = Vec::new(); it.rev().fold((), |_, $x| { let y = $conv; acc.push(y); if acc.len() > 200_000 { panic!("runaway iteration: rev().fold yielded more than 200000 items"); } }); $out.fin_items = acc; }
            9 => { $out.fin_ran = true; let mut acc = Vec::new(); it.for_each(|$x| { let y = $conv; acc.push(y); if acc.len() > 200_000 { panic!("runaway iteration: for_each yielded more than 200000 items"); } }); $out.fin_items = acc; }
            // searching adaptors that never find: they must look at every remaining item once and leave the iterator exhausted
            10 | 11 | 13 | 14 | 15 => {
                $out.fin_ran = true;
                let mut n = 0usize;
                let mut tick = || { n += 1; if n > 200_000 { panic!("runaway iteration: a searching adaptor looked at more than 200000 items"); } };
                let found = match $fin { 10 => it.find(|_| { tick(); false }).is_some(), 11 => it.rfind(|_| { tick(); false }).is_some(), 13 => it.position(|_| { tick(); false }).is_some(), 14 => !it.all(|_| { tick(); true }), _ => it.any(|_| { tick(); false }) };
                $out.fin_count = n;
                // found something although the predicate never accepts, or yields again afterwards: reported through the hint slot
                $out.fin_hint = (found as usize, Some(it.next().is_some() as usize + it.next_back().is_some() as usize));
            }
            12 => { $out.fin_ran = true; let all: Vec<_> = it.collect(); if all.len() > 200_000 { panic!("runaway iteration: collect yielded more than 200000 items"); } for $x in all { let y = $conv; $out.fin_items.push(y); } }
            // the consumer panics while it holds the iterator: the iterator is dropped during unwinding and must clean up as usual
            8 => { $out.fin_ran = true; if !$forget { let _keep = &mut it; panic!("{}", CONSUMER_PANIC); } else { std::mem::forget(it); } }
            _ => { if $forget { std::mem::forget(it); } }
        }
    }};
}

/// Execute one operation. `caches[*cur]` is the addressed cache. Everything the
/// library hands back by value is parked in `held`. Panics are caught and reported in
/// the outcome. `base` = entry_size of a pair with zero declared heap.
pub fn apply<S: HB>(caches: &mut Vec<Cache<S>>, cur: &mut usize, op: &Op, held: &mut Held, base: usize) -> Outcome {
    let mut out = Outcome { accessors_ok: true, tag: "unit", ..Default::default() };
    // probe keys for owned-form lookups are created before and dropped after the window
    let probe: Option<TKey> = match op {
        Op::Get { id, owned: true } | Op::GetEntry { id, owned: true } | Op::Peek { id, owned: true } | Op::PeekEntry { id, owned: true }
        | Op::Contains { id, owned: true } | Op::Touch { id, owned: true } | Op::Remove { id, owned: true }
        | Op::RemoveEntry { id, owned: true } | Op::Mutate { id, owned: true, .. } => Some(TKey::new(*id, 0)),
        _ => None,
    };
    window_begin();
    let res = catch_unwind(AssertUnwindSafe(|| {
        let out = &mut out;
        match op {
            Op::Insert { id, kh, vh } => {
                let k = TKey::new(*id, *kh); let v = TVal::new(*vh);
                out.in_k = Some(k.uid); out.in_v = Some(v.uid);
                arm_pending_alloc_fail();
                let r = caches[*cur].insert(k, v);
                out.alloc_failed = valloc::fail_off();
                match r {
                    Ok(None) => out.tag = "ok_none",
                    Ok(Some(old)) => { out.tag = "ok_some"; out.v = Some(old.uid); held.vals.push(old); }
                    Err(InsertError::EntryTooLarge { key, value, entry_size, max_size }) => {
                        out.tag = "err_too_large"; out.k = Some(key.uid); out.v = Some(value.uid); out.n = [entry_size, max_size, 0];
                        out.measured = Some(entry_size_u128(&key, &value, base));
                        held.keys.push(key); held.vals.push(value);
                    }
                }
            }
            Op::TryInsert { id, kh, vh } => {
                let k = TKey::new(*id, *kh); let v = TVal::new(*vh);
                out.in_k = Some(k.uid); out.in_v = Some(v.uid);
                match caches[*cur].try_insert(k, v) {
                    Ok(()) => out.tag = "ok",
                    Err(e) => {
                        {
                            let (ek, ev) = e.entry();
                            out.accessors_ok = e.key().uid == ek.uid && e.value().uid == ev.uid;
                            let (fk, fv) = match &e {
                                TryInsertError::OccupiedEntry { key, value } => (key.uid, value.uid),
                                TryInsertError::WouldEjectLru { key, value, .. } => (key.uid, value.uid),
                                TryInsertError::EntryTooLarge { key, value, .. } => (key.uid, value.uid),
                            };
                            out.accessors_ok &= fk == ek.uid && fv == ev.uid;
                        }
                        match &e {
                            TryInsertError::OccupiedEntry { .. } => { out.tag = "err_occupied"; }
                            TryInsertError::WouldEjectLru { entry_size, free_memory, .. } => { out.tag = "err_would_eject"; out.n = [*entry_size, *free_memory, 0]; }
                            TryInsertError::EntryTooLarge { entry_size, max_size, .. } => { out.tag = "err_too_large"; out.n = [*entry_size, *max_size, 0]; }
                        }
                        let (ku, vu, m) = { let (ek, ev) = e.entry(); (ek.uid, ev.uid, entry_size_u128(ek, ev, base)) };
                        out.k = Some(ku); out.v = Some(vu); out.measured = Some(m);
                        // hand the pair back through one of the three by-value accessors; what the accessor
                        // itself discards is a caller-side drop, so the drop window is suspended meanwhile
                        let w = window_suspend();
                        match ku % 3 {
                            0 => { let (key, value) = e.into_entry(); out.accessors_ok &= key.uid == ku && value.uid == vu; held.keys.push(key); held.vals.push(value); }
                            1 => { let key = e.into_key(); out.accessors_ok &= key.uid == ku; held.keys.push(key); }
                            _ => { let value = e.into_value(); out.accessors_ok &= value.uid == vu; held.vals.push(value); }
                        }
                        window_restore(w);
                    }
                }
            }
            Op::Get { id, owned } => {
                let r = if *owned { caches[*cur].get(probe.as_ref().unwrap()) } else { caches[*cur].get(&KeyId(*id)) };
                match r { Some(v) => { out.tag = "some"; out.v = Some(v.uid); out.vaddr = v as *const TVal as usize; } None => out.tag = "none" }
            }
            Op::GetEntry { id, owned } => {
                let r = if *owned { caches[*cur].get_entry(probe.as_ref().unwrap()) } else { caches[*cur].get_entry(&KeyId(*id)) };
                match r { Some((k, v)) => { out.tag = "some"; out.k = Some(k.uid); out.v = Some(v.uid); out.kaddr = k as *const TKey as usize; out.vaddr = v as *const TVal as usize; } None => out.tag = "none" }
            }
            Op::Peek { id, owned } => {
                let r = if *owned { caches[*cur].peek(probe.as_ref().unwrap()) } else { caches[*cur].peek(&KeyId(*id)) };
                match r { Some(v) => { out.tag = "some"; out.v = Some(v.uid); out.vaddr = v as *const TVal as usize; } None => out.tag = "none" }
            }
            Op::PeekEntry { id, owned } => {
                let r = if *owned { caches[*cur].peek_entry(probe.as_ref().unwrap()) } else { caches[*cur].peek_entry(&KeyId(*id)) };
                match r { Some((k, v)) => { out.tag = "some"; out.k = Some(k.uid); out.v = Some(v.uid); out.kaddr = k as *const TKey as usize; out.vaddr = v as *const TVal as usize; } None => out.tag = "none" }
            }
            Op::Contains { id, owned } => {
                let r = if *owned { caches[*cur].contains(probe.as_ref().unwrap()) } else { caches[*cur].contains(&KeyId(*id)) };
                out.tag = if r { "true" } else { "false" };
            }
            Op::Touch { id, owned } => {
                if *owned { caches[*cur].touch(probe.as_ref().unwrap()) } else { caches[*cur].touch(&KeyId(*id)) }
            }
            Op::GetLru => match caches[*cur].get_lru() {
                Some((k, v)) => { out.tag = "some"; out.k = Some(k.uid); out.v = Some(v.uid); out.kaddr = k as *const TKey as usize; out.vaddr = v as *const TVal as usize; } None => out.tag = "none" },
            Op::PeekLru => match caches[*cur].peek_lru() {
                Some((k, v)) => { out.tag = "some"; out.k = Some(k.uid); out.v = Some(v.uid); out.kaddr = k as *const TKey as usize; out.vaddr = v as *const TVal as usize; } None => out.tag = "none" },
            Op::PeekMru => match caches[*cur].peek_mru() {
                Some((k, v)) => { out.tag = "some"; out.k = Some(k.uid); out.v = Some(v.uid); out.kaddr = k as *const TKey as usize; out.vaddr = v as *const TVal as usize; } None => out.tag = "none" },
            Op::Remove { id, owned } => {
                let r = if *owned { caches[*cur].remove(probe.as_ref().unwrap()) } else { caches[*cur].remove(&KeyId(*id)) };
                match r { Some(v) => { out.tag = "some"; out.v = Some(v.uid); held.vals.push(v); } None => out.tag = "none" }
            }
            Op::RemoveEntry { id, owned } => {
                let r = if *owned { caches[*cur].remove_entry(probe.as_ref().unwrap()) } else { caches[*cur].remove_entry(&KeyId(*id)) };
                match r { Some((k, v)) => { out.tag = "some"; out.k = Some(k.uid); out.v = Some(v.uid); held.keys.push(k); held.vals.push(v); } None => out.tag = "none" }
            }
            Op::RemoveLru => match caches[*cur].remove_lru() {
                Some((k, v)) => { out.tag = "some"; out.k = Some(k.uid); out.v = Some(v.uid); held.keys.push(k); held.vals.push(v); } None => out.tag = "none" },
            Op::RemoveMru => match caches[*cur].remove_mru() {
                Some((k, v)) => { out.tag = "some"; out.k = Some(k.uid); out.v = Some(v.uid); held.keys.push(k); held.vals.push(v); } None => out.tag = "none" },
            Op::Mutate { id, owned, vh } => {
                let token = next_token();
                out.token_in = token;
                let mut ran = false; let mut saw = None;
                let f = |v: &mut TVal| { ran = true; saw = Some((v.uid, v.heap, v.stamp)); v.heap = *vh; v.stamp = token; tick(C_CLOSURE); token };
                let r = if *owned { caches[*cur].mutate(probe.as_ref().unwrap(), f) } else { caches[*cur].mutate(&KeyId(*id), f) };
                out.closure_ran = ran; out.closure_saw = saw;
                match r {
                    Ok(None) => out.tag = "ok_none",
                    Ok(Some(t)) => { out.tag = "ok_some"; out.token_out = Some(t); }
                    Err(MutateError::EntryTooLarge { key, value, old_entry_size, new_entry_size, max_size }) => {
                        out.tag = "err_too_large"; out.k = Some(key.uid); out.v = Some(value.uid);
                        out.n = [old_entry_size, new_entry_size, max_size];
                        out.measured = Some(entry_size_u128(&key, &value, base));
                        out.ret_v_stamp = value.stamp; out.ret_v_heap = value.heap;
                        held.keys.push(key); held.vals.push(value);
                    }
                }
            }
            Op::SetMax { m } => caches[*cur].set_max_size(*m),
            Op::Retain { reject } => {
                let log = &mut out.pred_log;
                caches[*cur].retain(|k, v| {
                    log.push((k.id, k.uid, v.uid, k as *const TKey as usize, v as *const TVal as usize));
                    tick(C_PRED);
                    !reject.contains(&k.id)
                });
            }
            Op::Reserve { n } => { arm_pending_alloc_fail(); caches[*cur].reserve(*n); out.alloc_failed = valloc::fail_off(); }
            Op::TryReserve { n } => match caches[*cur].try_reserve(*n) {
                Ok(()) => out.tag = "ok",
                Err(hashbrown::TryReserveError::CapacityOverflow) => out.tag = "err_capacity",
                Err(hashbrown::TryReserveError::AllocError { .. }) => out.tag = "err_alloc",
            },
            Op::TryReserveFail { n, fail_at } => {
                // an allocator refusal that is not handled ends the process (handle_alloc_error aborts): leave a marker for the driver
                { use std::io::Write; println!("CASE try_reserve_fail additional={} refuse_allocation=#{} len={} capacity={}", n, fail_at, caches[*cur].len(), caches[*cur].capacity()); let _ = std::io::stdout().flush(); }
                valloc::fail_nth(*fail_at);
                let r = caches[*cur].try_reserve(*n);
                out.alloc_failed = valloc::fail_off();
                match r {
                    Ok(()) => out.tag = "ok",
                    Err(hashbrown::TryReserveError::CapacityOverflow) => out.tag = "err_capacity",
                    Err(hashbrown::TryReserveError::AllocError { .. }) => out.tag = "err_alloc",
                }
            }
            Op::ShrinkTo { n } => { arm_pending_alloc_fail(); caches[*cur].shrink_to(*n); out.alloc_failed = valloc::fail_off(); }
            Op::ShrinkFit => { arm_pending_alloc_fail(); caches[*cur].shrink_to_fit(); out.alloc_failed = valloc::fail_off(); }
            Op::Clear => caches[*cur].clear(),
            Op::Iterate { kind, calls, forget, fin } => {
                match *kind {
                    IT_ITER => drive!(caches[*cur].iter(), calls, *forget, *fin, out, |x| { let (k, v): (&TKey, &TVal) = x; Yield { k: Some(k.uid), v: Some(v.uid), kaddr: k as *const TKey as usize, vaddr: v as *const TVal as usize, none: false } }),
                    IT_KEYS => drive!(caches[*cur].keys(), calls, *forget, *fin, out, |x| { let k: &TKey = x; Yield { k: Some(k.uid), v: None, kaddr: k as *const TKey as usize, vaddr: 0, none: false } }),
                    IT_VALUES => drive!(caches[*cur].values(), calls, *forget, *fin, out, |x| { let v: &TVal = x; Yield { k: None, v: Some(v.uid), kaddr: 0, vaddr: v as *const TVal as usize, none: false } }),
                    _ => drive!(caches[*cur].drain(), calls, *forget, *fin, out, |x| { let (k, v): (TKey, TVal) = x; let y = Yield { k: Some(k.uid), v: Some(v.uid), kaddr: 0, vaddr: 0, none: false }; held.keys.push(k); held.vals.push(v); y }),
                }
            }
            Op::Into { kind, calls, forget, fin } => {
                let c = caches.remove(*cur);
                *cur = 0;
                match *kind {
                    IT_INTO_ITER => drive!(c.into_iter(), calls, *forget, *fin, out, |x| { let (k, v): (TKey, TVal) = x; let y = Yield { k: Some(k.uid), v: Some(v.uid), kaddr: 0, vaddr: 0, none: false }; held.keys.push(k); held.vals.push(v); y }),
                    IT_INTO_KEYS => drive!(c.into_keys(), calls, *forget, *fin, out, |x| { let k: TKey = x; let y = Yield { k: Some(k.uid), v: None, kaddr: 0, vaddr: 0, none: false }; held.keys.push(k); y }),
                    _ => drive!(c.into_values(), calls, *forget, *fin, out, |x| { let v: TVal = x; let y = Yield { k: None, v: Some(v.uid), kaddr: 0, vaddr: 0, none: false }; held.vals.push(v); y }),
                }
            }
            Op::Debug => { out.debug = Some(format!("{:?}", caches[*cur])); }
            Op::CloneCache => { let d = caches[*cur].clone(); caches.push(d); }
            Op::Switch { idx } => { if *idx < caches.len() { *cur = *idx; } }
            Op::DropCache { idx } => { if caches.len() > 1 && *idx < caches.len() { let c = caches.remove(*idx); drop(c); if *cur >= caches.len() || *cur == *idx { *cur = 0; } else if *cur > *idx { *cur -= 1; } } }
            Op::NewCache { max, cap0 } => { let hk = hk_of(&caches[*cur]); caches.push(S::make(*max, *cap0, hk)); }
            Op::CloneFrom { src } => {
                if *src != *cur && *src < caches.len() {
                    if *cur < *src { let (l, r) = caches.split_at_mut(*src); l[*cur].clone_from(&r[0]); }
                    else { let (l, r) = caches.split_at_mut(*cur); r[0].clone_from(&l[*src]); }
                }
            }
            Op::Scalars => { let c = &caches[*cur]; let _ = c.hasher(); out.scalars = [c.len(), c.is_empty() as usize, c.current_size(), c.max_size(), c.capacity()]; }
        }
    }));
    valloc::fail_off();
    set_pending_alloc_fail(0);
    out.drops = window_end();
    if let Err(e) = res {
        let m = panic_msg(e);
        // a panic of the iterator's consumer is part of the workload, not of the library
        if m.contains("consumer-panic") { out.tag = "unit"; } else { out.tag = "panic"; out.panic = Some(m); }
    }
    drop(probe);
    out
}
