//! lruverif_c18: the positive direction of C18 exercised with NON-'static type parameters: a cache whose keys,
//! values and hasher borrow from a local is shared by reference between scoped threads (Sync) and moved into a
//! scoped thread (Send). If `LruCache<K, V, S>` stops being Send/Sync for such parameters, this program no longer
//! compiles — which the C18 check reports as a violation (the rest of the harness still builds).

use lru_mem::LruCache;
use std::hash::{BuildHasher, Hasher};

fn assert_send<T: Send>(_: &T) {}
fn assert_sync<T: Sync>(_: &T) {}

/// a hasher whose state is borrowed (not 'static)
#[derive(Clone)]
struct BorrowedSeed<'a>(&'a u64);
struct SeedHasher(u64);
impl<'a> BuildHasher for BorrowedSeed<'a> { type Hasher = SeedHasher; fn build_hasher(&self) -> SeedHasher { SeedHasher(*self.0) } }
impl Hasher for SeedHasher {
    fn finish(&self) -> u64 { self.0.wrapping_mul(0x9E3779B97F4A7C15) }
    fn write(&mut self, b: &[u8]) { for x in b { self.0 = self.0.wrapping_mul(31).wrapping_add(*x as u64); } }
}

fn exercise<'a>(texts: &'a [String], seed: &'a u64) -> usize {
    let mut cache: LruCache<&'a str, &'a [u8], BorrowedSeed<'a>> = LruCache::with_hasher(100_000, BorrowedSeed(seed));
    for t in texts { cache.insert(t.as_str(), t.as_bytes()).unwrap(); }
    assert_send(&cache);
    assert_sync(&cache);
    // Sync: &cache used by several threads at once
    let shared = std::thread::scope(|s| {
        let a = s.spawn(|| cache.len());
        let b = s.spawn(|| cache.iter().count());
        let c = s.spawn(|| cache.peek_lru().map(|(k, _)| k.len()).unwrap_or(0) + cache.contains("t1") as usize);
        a.join().unwrap() + b.join().unwrap() + c.join().unwrap()
    });
    // Send: the cache itself moves to another thread, is mutated there and comes back
    let back = std::thread::scope(|s| s.spawn(move || { let mut c = cache; let _ = c.insert("zz", b"q"); c.get("t0"); c }).join().unwrap());
    shared + back.len()
}

fn main() {
    let texts: Vec<String> = (0..5).map(|i| format!("t{}", i)).collect();
    let seed = 7u64;
    let n = exercise(&texts, &seed);
    let ok = n == 5 + 5 + 3 + 6;
    println!("RESULT {{\"events\":1,\"histories\":0,\"evals\":{{\"C18\":1}},\"distinct\":{{\"C18\":[\"c18e{}\"]}},\"counters\":{{\"c18_nonstatic_exercise_runs\":1}},\"maxima\":{{}},\"samples\":{{\"C18\":[\"LruCache<&'a str, &'a [u8], BorrowedSeed<'a>> shared by 3 scoped threads and moved through a scoped thread: {}\"]}},\"failures\":[{}],\"viol_counts\":{{}},\"gate_broken_histories\":0}}",
        n, n, if ok { String::new() } else { format!("{{\"property\":\"C18\",\"signature\":\"c18-exercise-result\",\"message\":\"cross-thread exercise returned {}\",\"kind\":\"rerun\"}}", n) });
}
