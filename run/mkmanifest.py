#!/usr/bin/env python3
"""Regenerates /verif/MANIFEST.json from run/plans.py and run/manifest_text.py (so the two never drift)."""
import json, os, sys
HERE = os.path.dirname(os.path.abspath(__file__))
sys.path.insert(0, HERE)
from plans import PLANS, LEVELS
from manifest_text import TEXT, NOT_APPLICABLE, HOOK_COMMITS

VERIF = os.path.dirname(HERE)
checks = []
for pid in sorted(PLANS):
    t = TEXT[pid]
    checks.append({
        "property_id": pid,
        "quick_cmd": "python3 run/check.py %s --tier quick" % pid,
        "thorough_cmd": "python3 run/check.py %s --tier thorough" % pid,
        "evidence_file": "/verif/evidence/%s.json" % pid,
        "replay_cmd_template": "python3 run/check.py replay {path}",
        "engine": "lruverif",
        "level_claimed": {"category": LEVELS[pid], "text": t["level_text"], "design_ref": t["design_ref"]},
        "level_note": t["level_note"],
        "technique": t["technique"],
    })
manifest = {
    "version": 1,
    "setup_cmd": "python3 run/check.py setup",
    "hooks": {
        "guard": "cargo feature `verif-hooks` of lru-mem (off by default)",
        "enable": "the harness crate /verif/harness depends on lru-mem = { path = \"/repo\", features = [\"verif-hooks\"] }; cargo rebuilds it from /repo's working tree",
        "baseline_off_cmd": "cd /repo && cargo test --workspace --no-fail-fast --offline",
        "source_commits": HOOK_COMMITS,
        "add_only": True,
    },
    "engines": [{
        "name": "lruverif", "path": "/verif/harness",
        "serves_properties": sorted(PLANS),
        "kind_free_text": "Rust harness: instrumented key/value/hasher/allocator types, hook walk observer, per-property transition oracles over recorded events, fault enumerators; run natively, under Miri, AddressSanitizer/LeakSanitizer, ThreadSanitizer; driver run/check.py shards, merges, applies non-vacuity floors and writes evidence",
    }],
    "checks": checks,
    "not_applicable": [{"property_id": p, "reason": r} for p, r in sorted(NOT_APPLICABLE.items()) if p not in PLANS],
    "notes": "Verdicts are three-valued: exit 0 held on what was observed, exit 1 VIOLATION with a replay, exit 2 INCONCLUSIVE (build failure, watchdog, non-vacuity floors unmet) without a VIOLATION line. Known findings: /verif/known_findings.json.",
}
with open(os.path.join(VERIF, "MANIFEST.json"), "w") as f:
    json.dump(manifest, f, indent=1)
print("wrote MANIFEST.json with %d checks, %d not_applicable" % (len(checks), len(manifest["not_applicable"])))
