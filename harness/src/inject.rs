//! C16: panic injected at the n-th user callback (Hash, Eq, Clone, key size, value size,
//! mutate closure, retain predicate) of every (small state, operation) pair; afterwards
//! structure gate, recorded-size sum, ledger, further use and drop.

use crate::engine::*;
use crate::gen::*;
use crate::obs::*;
use crate::ops::*;
use crate::oracle::{Stats, Viol};
use crate::rng::{mix, Rng};
use crate::types::*;
use hashbrown::hash_map::DefaultHashBuilder;

pub struct InjectParams { pub seed: u64, pub budget_cases: u64, pub markers: bool, pub further_min: usize, pub further_max: usize }

pub fn run_inject(p: &InjectParams, out: &mut RunOut) {
    let base = base_entry_size();
    let mut rng = Rng::new(p.seed);
    let mut injected = 0u64;
    while injected < p.budget_cases {
        // ---- a small configuration
        let hk = if rng.chance(1, 8) { 4 } else { TH_KINDS[rng.usize_below(TH_KINDS.len())] };
        let universe = rng.range(3, 8) as u32;
        let typical = base + 40;
        let max = match rng.below(8) { 0 => usize::MAX, 1 => base * 2, _ => typical * rng.range(2, 7) + rng.usize_below(typical) };
        let cap0 = match rng.below(5) { 0 => None, 1 => Some(0), 2 => Some(1), 3 => Some(3), _ => Some(7) };
        let cfg = HistCfg { hk, cap0, max, universe, events: rng.range(0, 14), extreme: false };
        let left = p.budget_cases - injected;
        if hk == 4 { injected += one_state::<DefaultHashBuilder>(&cfg, &mut rng, base, p, out, left); } else { injected += one_state::<TH>(&cfg, &mut rng, base, p, out, left); }
        out.stats.histories += 1;
    }
}

fn obs_full(universe: u32, len: usize) -> ObsOpts { ObsOpts { universe, owned_form: !cfg!(miri), traversals: true, limit: len + 8 } }

fn rebuild<S: HB>(cfg: &HistCfg, ops: &[Op], base: usize) -> Vec<Cache<S>> {
    let mut caches: Vec<Cache<S>> = vec![S::make(cfg.max, cfg.cap0, cfg.hk)];
    let mut cur = 0usize;
    let mut held = Held::default();
    for op in ops { let _ = apply(&mut caches, &mut cur, op, &mut held, base); held.clear(); }
    // a small, independently constructed donor cache (#1) so that operations between two caches can be injected into
    let mut donor: Cache<S> = S::make(cfg.max / 2 + base * 3, Some(ops.len() % 5), cfg.hk);
    for id in 0..(ops.len() % 4) as u32 + 1 { let _ = donor.insert(TKey::new(id + 1, 0), TVal::new(id as usize)); }
    caches.push(donor);
    caches
}

/// operations aimed at the state: every mutating / cloning API in its interesting variants
fn target_ops(rng: &mut Rng, pre: &Obs, cfg: &HistCfg, base: usize) -> Vec<Op> {
    let u = cfg.universe;
    let present: Vec<u32> = pre.ids();
    let absent: Vec<u32> = (0..u).filter(|i| !pre.has(*i)).collect();
    let some_present = present.get(rng.usize_below(present.len().max(1))).cloned();
    let lru = present.first().cloned();
    let some_absent = absent.get(rng.usize_below(absent.len().max(1))).cloned().unwrap_or(u);
    let free = pre.max.saturating_sub(pre.cur);
    let mut ops = Vec::new();
    // insertions
    ops.push(Op::Insert { id: some_absent, kh: 0, vh: rng.usize_below(30) });
    if let Some(pid) = some_present { ops.push(Op::Insert { id: pid, kh: 1, vh: rng.usize_below(60) }); }
    if pre.len >= 1 && pre.max != usize::MAX { // needs k evictions
        let k = rng.range(1, pre.len.min(3));
        let s: usize = pre.ents[..k].iter().map(|e| e.rec).sum();
        let total = (free + s).max(base).min(pre.max);
        ops.push(Op::Insert { id: some_absent, kh: 0, vh: total - base });
    }
    // an insertion into a full table (forces automatic growth): handled through states whose len == capacity, here just another fresh key
    ops.push(Op::TryInsert { id: some_absent, kh: 0, vh: 0 });
    if let Some(pid) = some_present { ops.push(Op::TryInsert { id: pid, kh: 0, vh: 0 }); }
    ops.push(Op::Insert { id: some_absent, kh: 0, vh: pre.max.saturating_sub(base).saturating_add(1).min(usize::MAX - base - 1) }); // too large (unless limit is MAX)
    // lookups / promotions
    let id = some_present.unwrap_or(some_absent);
    let owned = rng.chance(1, 2);
    ops.push(Op::Get { id, owned }); ops.push(Op::GetEntry { id: some_absent, owned: !owned }); ops.push(Op::Touch { id, owned: !owned });
    ops.push(Op::Peek { id, owned }); ops.push(Op::PeekEntry { id, owned: !owned }); ops.push(Op::Contains { id, owned });
    ops.push(Op::GetLru);
    // removals
    ops.push(Op::Remove { id, owned }); ops.push(Op::RemoveEntry { id, owned: !owned }); ops.push(Op::RemoveLru); ops.push(Op::RemoveMru);
    // mutate: shrink, grow that fits, grow that evicts, overflow; on the LRU entry too
    for pid in [some_present, lru].into_iter().flatten() {
        let e = pre.find(pid).unwrap();
        let fixed = e.kheap + base;
        ops.push(Op::Mutate { id: pid, owned: false, vh: 0 });
        ops.push(Op::Mutate { id: pid, owned: true, vh: (e.rec + free).saturating_sub(fixed) });
        if pre.len >= 2 && pre.max != usize::MAX { let other: usize = pre.ents.iter().filter(|x| x.id != pid).take(rng.range(1, 2)).map(|x| x.rec).sum(); ops.push(Op::Mutate { id: pid, owned: false, vh: (e.rec + free + other).min(pre.max).saturating_sub(fixed) }); }
        if pre.max != usize::MAX { ops.push(Op::Mutate { id: pid, owned: false, vh: (pre.max - fixed).saturating_add(1) }); }
    }
    ops.push(Op::Mutate { id: some_absent, owned: false, vh: 3 });
    // limit
    if pre.len >= 1 { let keep = rng.range(0, pre.len - 1); let s: usize = pre.ents[pre.len - keep..].iter().map(|e| e.rec).sum(); ops.push(Op::SetMax { m: s }); }
    // retain: some / all / none rejected
    ops.push(Op::Retain { reject: present.iter().enumerate().filter(|(i, _)| i % 2 == 0).map(|(_, x)| *x).collect() });
    ops.push(Op::Retain { reject: present.clone() });
    ops.push(Op::Retain { reject: vec![] });
    if present.len() >= 3 { ops.push(Op::Retain { reject: vec![present[1], present[present.len() - 1]] }); }
    // capacity (each one forced to rebuild where possible)
    ops.push(Op::Reserve { n: pre.cap.saturating_sub(pre.len) + 1 + rng.usize_below(9) });
    ops.push(Op::TryReserve { n: pre.cap.saturating_sub(pre.len) + 1 + rng.usize_below(30) });
    ops.push(Op::ShrinkFit); ops.push(Op::ShrinkTo { n: pre.len + rng.usize_below(2) });
    // the rest
    ops.push(Op::CloneCache); ops.push(Op::CloneFrom { src: 1 }); ops.push(Op::Clear);
    ops.push(Op::Iterate { kind: IT_DRAIN, calls: vec![false, true], forget: false, fin: 0 });
    ops.push(Op::Iterate { kind: IT_ITER, calls: vec![false; pre.len + 1], forget: false, fin: 0 });
    ops
}

fn one_state<S: HB>(cfg: &HistCfg, rng: &mut Rng, base: usize, p: &InjectParams, out: &mut RunOut, left: u64) -> u64 {
    ledger_reset(); ledger_strict(true);
    // ---- build the state with the ordinary generator, recording concrete operations
    let prof = profile("mixed");
    let mut g = Gen { rng: Rng::new(rng.next()), prof, base, orig_max: cfg.max, target_len: rng.range(0, 7).min(cfg.universe as usize) };
    let mut caches: Vec<Cache<S>> = vec![S::make(cfg.max, cfg.cap0, cfg.hk)];
    let mut cur = 0usize; let mut held = Held::default();
    let mut build: Vec<Op> = Vec::new();
    let light = ObsOpts { universe: 0, owned_form: false, traversals: false, limit: 64 };
    let mut pre = observe(&caches[0], &light);
    // sometimes fill the table exactly so that the next insertion has to grow it
    let fill_table = rng.chance(1, 4);
    for _ in 0..cfg.events {
        let op = g.next_op(&pre, cfg, 1, 0);
        if matches!(op, Op::TryReserveFail { .. } | Op::Into { .. } | Op::DropCache { .. } | Op::Switch { .. } | Op::CloneCache | Op::Debug | Op::Scalars) { continue; }
        let _ = apply(&mut caches, &mut cur, &op, &mut held, base); held.clear();
        build.push(op);
        pre = observe(&caches[0], &light);
    }
    if fill_table && cfg.max > base * 64 {
        let mut guard = 0;
        while pre.len < pre.cap && guard < 40 { let id = 100 + guard as u32; let op = Op::Insert { id, kh: 0, vh: 0 }; let _ = apply(&mut caches, &mut cur, &op, &mut held, base); held.clear(); build.push(op); pre = observe(&caches[0], &light); guard += 1; }
    }
    let universe = if fill_table { cfg.universe.max(141) } else { cfg.universe };
    drop(caches); ledger_reset();
    let mut targets = target_ops(rng, &pre, cfg, base);
    // small budgets (interpreter) must still see every kind of operation: start anywhere in the list
    let rot = rng.usize_below(targets.len()); targets.rotate_left(rot);
    let mut injected = 0u64;
    for op in targets {
        if injected >= left { break; }
        // ---- counting run
        let mut caches = rebuild::<S>(cfg, &build, base);
        let mut cur = 0usize;
        let pre = observe(&caches[0], &obs_full(universe, 64));
        if !pre.g1.is_empty() { std::mem::forget(caches); ledger_reset(); continue; }
        let t0 = counts();
        let o = apply(&mut caches, &mut cur, &op, &mut held, base);
        let d = delta(&t0, &counts());
        held.clear();
        let clean_panic = o.panic.is_some();
        drop(caches); ledger_reset();
        if clean_panic { continue; } // e.g. documented reserve panic: not an injection target
        for class in 0..NCLASS {
            for n in 1..=d[class] {
                if p.markers { println!("CASE inject op=[{}] class={} n={} cfg=[{}] build=[{}]", op.to_text(), CLASS_NAMES[class], n, cfg.to_text(), build.iter().map(|o| o.to_text()).collect::<Vec<_>>().join("; ")); }
                let fired = inject_case::<S>(cfg, &build, &op, class, n, universe, base, rng, p, out, None);
                if fired { injected += 1; }
                // double fault: the same panic with the 1st / 2nd allocation of a rebuilding operation refused as well
                if class == C_HASH && !cfg!(miri) && matches!(op, Op::Reserve { .. } | Op::ShrinkTo { .. } | Op::ShrinkFit | Op::Insert { .. }) {
                    for a in 1..=2u64 { if inject_case::<S>(cfg, &build, &op, class, n | (a << 32), universe, base, rng, p, out, None) { injected += 1; } }
                    if n == 1 { for a in 1..=2u64 { if inject_case::<S>(cfg, &build, &op, class, 0xFFFF_FFFF | (a << 32), universe, base, rng, p, out, None) { injected += 1; } } }
                }
                if injected >= left { break; }
            }
            if injected >= left { break; }
        }
    }
    injected
}

fn post_panic_checks(tag: &str, obs: &Obs, pre: Option<&Obs>, class: usize, op: &Op, viols: &mut Vec<Viol>) {
    let mut v = |sig: &str, msg: String| viols.push(Viol { prop: "C16", sig: sig.to_string(), msg });
    for m in obs.g1.iter() { v("structure", format!("{}: {}", tag, m)); }
    for m in obs.g2.iter().chain(obs.g3.iter()) { v("structure-api", format!("{}: {}", tag, m)); }
    if !obs.g1.is_empty() { return; }
    if obs.sum_rec() != obs.cur as u128 { v("recorded-sum", format!("{}: current_size() = {} but the sizes recorded for the {} remaining entries sum to {}", tag, obs.cur, obs.ents.len(), obs.sum_rec())); }
    for e in &obs.ents { if !ledger_is_live(e.kuid) || !ledger_is_live(e.vuid) { v("dropped-in-cache", format!("{}: entry {} holds a key/value that has been dropped", tag, e.id)); break; } }
    // C05 is unconditional as well: whatever an operation manages to do before it unwinds, the entries that remain keep
    // their relative order; only the entry a promoting operation addresses may have moved to the most-recently-used end.
    if let Some(pre) = pre {
        let moved: Option<u32> = match op { Op::Insert { id, .. } | Op::TryInsert { id, .. } | Op::Get { id, .. } | Op::GetEntry { id, .. } | Op::Touch { id, .. } | Op::Mutate { id, .. } => Some(*id), Op::GetLru => pre.ents.first().map(|e| e.id), _ => None };
        let before: Vec<u32> = pre.ents.iter().map(|e| e.id).filter(|i| Some(*i) != moved && obs.has(*i)).collect();
        let after: Vec<u32> = obs.ents.iter().map(|e| e.id).filter(|i| Some(*i) != moved && pre.has(*i)).collect();
        if before != after && !matches!(op, Op::CloneFrom { .. }) {
            viols.push(Viol { prop: "C05", sig: "order-after-panic".to_string(), msg: format!("{}: the entries that remain were in the order {:?} before and are in the order {:?} now", tag, before, after) });
        }
    }
    // C01 is unconditional ("after every public operation returns"): the observation just made is a series of public
    // operations that returned. C16 repeats the bound for closure panics only; for the other callbacks it is C01 that speaks.
    if obs.cur > obs.max && !(class == C_CLOSURE || class == C_PRED) {
        viols.push(Viol { prop: "C01", sig: "bound-after-panic".to_string(), msg: format!("{}: current_size() = {} > max_size() = {} once the panic has been caught", tag, obs.cur, obs.max) });
    }
    let mut v = |sig: &str, msg: String| viols.push(Viol { prop: "C16", sig: sig.to_string(), msg });
    if class == C_CLOSURE || class == C_PRED {
        if obs.cur > obs.max { v("closure-bound", format!("{}: current_size() = {} > max_size() = {} after a panic in the closure", tag, obs.cur, obs.max)); }
        if let Some(pre) = pre {
            // nothing may be lost except what the predicate had already rejected
            let allowed: Vec<u32> = match op { Op::Retain { reject } => reject.clone(), _ => vec![] };
            for e in &pre.ents { if !obs.has(e.id) && !allowed.contains(&e.id) { v("closure-lost", format!("{}: entry {} was lost although the closure panicked", tag, e.id)); break; } }
        }
    }
}

#[allow(clippy::too_many_arguments)]
pub fn inject_case<S: HB>(cfg: &HistCfg, build: &[Op], op: &Op, class: usize, n: u64, universe: u32, base: usize, rng: &mut Rng, p: &InjectParams, out: &mut RunOut, fixed_further: Option<&[Op]>) -> bool {
    ledger_reset(); ledger_strict(true);
    crate::ops::set_current_hk(cfg.hk);
    let mut caches = rebuild::<S>(cfg, build, base);
    let mut cur = 0usize; let mut held = Held::default();
    let pre = observe(&caches[0], &obs_full(universe, 64));
    let mut viols: Vec<Viol> = Vec::new();
    let mut used_second = false;
    let mut oplog: Vec<Op> = build.to_vec();
    oplog.push(op.clone());
    // a second fault, independent of the first: the a-th allocation made inside the operation is refused (n's upper half)
    let (n_enc, alloc_fail) = (n, n >> 32);
    let n = n & 0xFFFF_FFFF;
    arm(class, if n == 0xFFFF_FFFF { u64::MAX } else { n });
    // every other case: a user callback reached while the injected panic unwinds panics as well (see types::tick)
    if (n + class as u64) % 2 == 0 { set_cascade(true); out.stats.count("c16_cases_with_cascade_armed"); }
    if alloc_fail > 0 { crate::ops::set_pending_alloc_fail(alloc_fail); }
    let o = apply(&mut caches, &mut cur, op, &mut held, base);
    let pending = fuse_pending();
    disarm();
    held.clear();
    // the infallible operations answer a refused allocation with a panic of their own (`unwrap` of the TryReserveError)
    let refused = alloc_fail > 0 && matches!(&o.panic, Some(m) if m.contains("AllocError"));
    if refused { out.stats.count("c16_allocation_refused_inside_infallible_rebuild"); if pending { out.stats.count("c16_refused_alone"); } }
    let fired = refused || match &o.panic { Some(m) => m.contains(INJECTED), None => false };
    if fired && alloc_fail > 0 && !refused { out.stats.count("c16_callback_panic_with_allocation_refusal_armed"); }
    if !fired {
        out.stats.count(if pending { "c16_fuse_not_reached" } else { "c16_panic_swallowed_or_other" });
        if let Some(m) = &o.panic { viols.push(Viol { prop: "C16", sig: "other-panic".into(), msg: format!("{} with a panic injected at {} #{} died with a different panic: {}", op.to_text(), CLASS_NAMES[class], n, m) }); }
        if viols.is_empty() { drop(caches); ledger_reset(); return false; }
    }
    let what = if refused { format!("{} whose allocation #{} was refused ({} callback panic armed at #{})", op.to_text(), alloc_fail, CLASS_NAMES[class], n) } else { format!("{} after a panic in {} callback #{}{}", op.to_text(), CLASS_NAMES[class], n, if alloc_fail > 0 { format!(" (allocation #{} refused before)", alloc_fail) } else { String::new() }) };
    // ---- immediately after the panic
    let mut broken = false;
    for (i, c) in caches.iter().enumerate() {
        let ob = observe(c, &obs_full(universe, c.len().min(4096)));
        post_panic_checks(&format!("{} (cache #{})", what, i), &ob, if i == 0 { Some(&pre) } else { None }, class, op, &mut viols);
        broken |= !ob.g1.is_empty();
        let key = mix(&[op.kind_index(), class as u64, n.min(8), pre.len.min(8) as u64, cfg.hk as u64, (ob.table_at != pre.table_at) as u64, ob.len.min(8) as u64]);
        out.stats.eval("C16", key);
        if i == 0 { out.stats.eval("C01", mix(&[1601, op.kind_index(), class as u64, (ob.len < pre.len) as u64])); out.stats.eval("C05", mix(&[1605, op.kind_index(), class as u64, ob.len.min(6) as u64])); out.stats.count("c01_bound_checked_after_caught_panic"); out.stats.count("c05_order_checked_after_caught_panic"); }
    }
    for e in ledger_take_errors() { viols.push(Viol { prop: "C16", sig: "double-drop".into(), msg: format!("{}: {}", what, e) }); }
    out.stats.countf(format_args!("c16_fired_{}", CLASS_NAMES[class]));
    out.stats.countf(format_args!("c16_fired_in_{}", op.kind()));
    if matches!(op, Op::Reserve { .. } | Op::TryReserve { .. } | Op::ShrinkTo { .. } | Op::ShrinkFit) && class == C_HASH { out.stats.count("c16_hash_panic_in_explicit_rebuild"); }
    if matches!(op, Op::Insert { .. } | Op::TryInsert { .. }) && class == C_HASH && pre.len == pre.cap && pre.len > 0 { out.stats.count("c16_hash_panic_in_growing_insert"); }
    out.stats.events += 1;
    // ---- arbitrary further use
    if !broken && viols.is_empty() {
        let prof = profile("mixed");
        let mut g = Gen { rng: Rng::new(rng.next()), prof, base, orig_max: cfg.max, target_len: 4 };
        let steps = match fixed_further { Some(f) => f.len(), None => rng.range(p.further_min, p.further_max) };
        let light = |len: usize| ObsOpts { universe, owned_form: false, traversals: true, limit: len + 8 };
        // After a panic inside mutate (in the closure or in a size measurement that follows it) the value's actual size
        // may differ from the size recorded for it; C16 speaks about the *recorded* sizes only. Mutating that entry again
        // is legal further use and must neither panic nor break what C16 states (structure, ledger, recorded sum). This is
        // the history of finding D8: the pre-fix library derived the new record from the stale one and underflowed.
        let frozen: Option<u32> = if matches!(op, Op::Mutate { .. }) { op.target_id() } else { None };

        let mut ob = observe(&caches[cur], &light(64));
        for fi in 0..steps {
            let fop = match fixed_further { Some(f) => f[fi].clone(), None => match frozen { Some(fz) if fi == 0 && ob.has(fz) && g.rng.chance(1, 2) => {
                    // (the entry's size must stay representable in usize, as everywhere in the harness)
                    let room = ob.find(fz).map(|e| (usize::MAX - base).saturating_sub(e.kheap)).unwrap_or(0);
                    // a third of the time the closure leaves the value's size as it is now (and the record must still be corrected)
                    let same = ob.find(fz).map(|e| e.vheap).unwrap_or(0);
                    Op::Mutate { id: fz, owned: g.rng.chance(1, 4), vh: if g.rng.chance(1, 3) { same } else { g.rng.usize_below(4).min(room) } } }, _ => g.next_op(&ob, cfg, caches.len(), cur) } };
            if matches!(fop, Op::TryReserveFail { .. } | Op::Into { .. }) { continue; }
            let remutate = matches!((frozen, &fop), (Some(fz), Op::Mutate { id, .. }) if *id == fz);
            if remutate { out.stats.count("c16_remutate_after_panicked_mutate"); }
            if matches!(&fop, Op::Switch { idx } | Op::DropCache { idx } if *idx >= caches.len()) { continue; }
            oplog.push(fop.clone());
            // now and then a SECOND fault: one of the later operations has a panic injected as well (first or second
            // callback of a random class); whatever C16 states must hold after it just the same, and the use goes on
            let second: Option<(usize, u64)> = if fixed_further.is_none() && g.rng.chance(1, 6) { Some((g.rng.usize_below(NCLASS), 1 + g.rng.below(2))) } else { None };
            if let Some((c2, n2)) = second { arm(c2, n2); }
            let fo = apply(&mut caches, &mut cur, &fop, &mut held, base);
            disarm(); held.clear();
            let second_fired = second.is_some() && matches!(&fo.panic, Some(m) if m.contains(INJECTED));
            if second_fired {
                used_second = true;
                out.stats.count("c16_second_panic_in_further_use");
                if caches.is_empty() { break; }
                if cur >= caches.len() { cur = 0; }
                let mut bad = false;
                for (i, c) in caches.iter().enumerate() {
                    let o2 = observe(c, &light(c.len().min(4096)));
                    post_panic_checks(&format!("{}, then a second panic ({} #{}) in {} (cache #{})", what, CLASS_NAMES[second.unwrap().0], second.unwrap().1, fop.to_text(), i), &o2, None, second.unwrap().0, &fop, &mut viols);
                    bad |= !o2.g1.is_empty();
                    if i == cur { ob = o2; }
                }
                for e in ledger_take_errors() { viols.push(Viol { prop: "C16", sig: "double-drop".into(), msg: format!("{}, then a second panic in {}: {}", what, fop.to_text(), e) }); }
                if bad || !viols.is_empty() { broken = bad; break; }
                continue;
            }
            if let Some(m) = &fo.panic {
                let documented = matches!(&fop, Op::Reserve { n } if *n > (usize::MAX >> 4));
                if !documented { viols.push(Viol { prop: "C16", sig: "further-use-panic".into(), msg: format!("{}: later {} panicked: {}", what, fop.to_text(), m) }); break; }
            }
            if caches.is_empty() { break; }
            if cur >= caches.len() { cur = 0; }
            // C11: a completed mutate "updates its accounted size to the new value's size" - also when the record was stale
            if let (Op::Mutate { id, .. }, None, "ok_some") = (&fop, &fo.panic, fo.tag) {
                let o3 = observe(&caches[cur], &light(caches[cur].len().min(4096)));
                if let Some(e) = o3.find(*id) {
                    out.stats.eval("C11", mix(&[1611, remutate as u64, (e.rec as u128 == e.esize(base)) as u64]));
                    if remutate { out.stats.count("c11_completed_mutate_of_entry_with_stale_record"); }
                    if e.rec as u128 != e.esize(base) { viols.push(Viol { prop: "C11", sig: "record-after-mutate".into(), msg: format!("{}: after the later, completed {} the size recorded for the entry is {}, entry_size(key, value) = {}", what, fop.to_text(), e.rec, e.esize(base)) }); }
                }
            }
            let mut bad = false;
            for (i, c) in caches.iter().enumerate() {
                let o2 = observe(c, &light(c.len().min(4096)));
                post_panic_checks(&format!("{}, then {} (cache #{})", what, fop.to_text(), i), &o2, None, usize::MAX, &fop, &mut viols);
                bad |= !o2.g1.is_empty();
                if i == cur { ob = o2; }
            }
            for e in ledger_take_errors() { viols.push(Viol { prop: "C16", sig: "double-drop".into(), msg: format!("{}, then {}: {}", what, fop.to_text(), e) }); }
            out.stats.count("c16_further_use_ops");
            if bad || !viols.is_empty() { broken = bad; break; }
        }
    }
    // ---- and drop
    if broken { for c in caches.drain(..) { std::mem::forget(c); } }
    else {
        drop(caches);
        for e in ledger_take_errors() { viols.push(Viol { prop: "C16", sig: "double-drop".into(), msg: format!("{}, dropping the cache: {}", what, e) }); }
        out.stats.count("c16_dropped_after");
    }
    if !viols.is_empty() {
        let before = out.failures.len();
        out.record_ex(&viols, cfg, &oplog, build.len(), Some((class, n_enc)));
        // a case with a second fault is replayed by re-running the shard (the op list alone does not carry the second fault)
        if used_second { for f in out.failures.iter_mut().skip(before) { f.rerun = true; } }
    }
    if out.stats.samples.get("C16").map(|v| v.len()).unwrap_or(0) < 5 && (n + class as u64) % 7 == 0 { out.stats.sample("C16", format!("{} | state: {} | inject {} #{} into {}", cfg.to_text(), build.iter().map(|o| o.to_text()).collect::<Vec<_>>().join("; "), CLASS_NAMES[class], n, op.to_text())); }
    ledger_reset();
    true
}

/// Re-execute a recorded injection: ops[..at] build the state, ops[at] gets the panic, ops[at+1..] are the further use.
pub fn replay_inject(cfg: &HistCfg, ops: &[Op], at: usize, class: usize, n: u64, out: &mut RunOut) {
    let base = base_entry_size();
    let mut rng = Rng::new(1);
    let p = InjectParams { seed: 0, budget_cases: 1, markers: false, further_min: 0, further_max: 0 };
    let universe = cfg.universe.max(ops.iter().filter_map(|o| o.target_id()).max().unwrap_or(0) + 1);
    if cfg.hk == 4 { inject_case::<DefaultHashBuilder>(cfg, &ops[..at], &ops[at], class, n, universe, base, &mut rng, &p, out, Some(&ops[at + 1..])); }
    else { inject_case::<TH>(cfg, &ops[..at], &ops[at], class, n, universe, base, &mut rng, &p, out, Some(&ops[at + 1..])); }
}

/// Panic injection at scale: a cache of `n` entries, a Hash panic at the first, last, power-of-two and random
/// positions of a table rebuild (reserve, shrink_to_fit, growing insert) and of clone; structure and accounting afterwards.
pub fn run_inject_big(seed: u64, n: usize, out: &mut RunOut) {
    let base = base_entry_size();
    let mut rng = Rng::new(seed);
    ledger_reset(); ledger_strict(false);
    crate::ops::set_current_hk(3);
    let cfg = HistCfg { hk: 3, cap0: None, max: usize::MAX, universe: n as u32, events: 0, extreme: false };
    let mut c: Cache<TH> = TH::make(usize::MAX, None, 3);
    for id in 0..n as u32 { let _ = c.insert(TKey::new(id, 0), TVal::new(0)); }
    let mut positions: Vec<u64> = vec![1, 2, n as u64 / 2, n as u64 - 1, n as u64];
    let mut k = 10; while (1u64 << k) + 1 < n as u64 { positions.push((1 << k) + 1); positions.push(1 << k); k += 1; }
    for _ in 0..12 { positions.push(1 + rng.below(n as u64)); }
    positions.sort_unstable(); positions.dedup();
    let opts = ObsOpts { universe: 0, owned_form: false, traversals: true, limit: n + 8 };
    for (i, pos) in positions.iter().enumerate() {
        let op_kind = i % 4;
        let what = format!("{} with {} entries, Hash callback #{} panics", ["reserve", "shrink_to_fit", "clone", "try_reserve"][op_kind], c.len(), pos);
        if p_markers() { println!("CASE inject-big {}", what); }
        let len0 = c.len();
        arm(C_HASH, *pos);
        let r = std::panic::catch_unwind(std::panic::AssertUnwindSafe(|| match op_kind {
            0 => { let add = c.capacity() - c.len() + 1 + len0 / 8; c.reserve(add); }
            1 => c.shrink_to_fit(),
            2 => { let d = c.clone(); drop(d); }
            _ => { let add = c.capacity() - c.len() + 1; let _ = c.try_reserve(add); }
        }));
        let fired = !fuse_pending() && r.is_err();
        disarm();
        let ob = observe(&c, &opts);
        out.stats.events += 1;
        if fired { out.stats.eval("C16", mix(&[5000, op_kind as u64, (*pos as f64).log2() as u64, (n as f64).log2() as u64])); out.stats.count("c16_big_state_injections"); }
        let mut viols = Vec::new();
        for m in ob.g1.iter().chain(ob.g2.iter()) { viols.push(Viol { prop: "C16", sig: "structure".into(), msg: format!("{}: {}", what, m) }); }
        if ob.g1.is_empty() {
            if ob.len != len0 { viols.push(Viol { prop: "C16", sig: "structure".into(), msg: format!("{}: {} entries afterwards", what, ob.len) }); }
            if ob.sum_rec() != ob.cur as u128 { viols.push(Viol { prop: "C16", sig: "recorded-sum".into(), msg: format!("{}: current_size() = {} but the recorded sizes sum to {}", what, ob.cur, ob.sum_rec()) }); }
            if ob.cur as u128 != (len0 as u128) * base as u128 { viols.push(Viol { prop: "C16", sig: "recorded-sum".into(), msg: format!("{}: current_size() = {} for {} entries of size {}", what, ob.cur, len0, base) }); }
        }
        if !viols.is_empty() {
            out.record(&viols, &cfg, &[], 0);
            for f in out.failures.iter_mut() { f.rerun = true; }
            std::mem::forget(c);
            ledger_reset();
            return;
        }
        // a successful shrink/reserve between injections keeps the table changing
        if op_kind == 1 { c.reserve(len0 / 4); }
    }
    drop(c);
    ledger_reset();
}

fn p_markers() -> bool { std::env::var("LRUVERIF_MARKERS").is_ok() }

pub fn _unused(_: &Stats) {}
